use std::cell::RefCell;
use std::collections::BTreeMap;
use std::sync::{Arc, Mutex};

use ntp_proto::verif::{
    clock_id_raw, dur_from_fixed, ts_from_fixed, ts_to_fixed, InternalStateUpdate, InternalTimeSyncController,
};
use ntp_proto::{
    AlgorithmConfig, ClockId, KalmanClockController, KalmanControllerMessage, KalmanSourceMessage, Measurement, NtpClock,
    NtpDuration, NtpLeapIndicator, PollInterval, PollIntervalLimits, SourceConfig, SourceController, StepThreshold,
    SynchronizationConfig, TimeSyncController, TimeSyncControllerWrapper,
};
use simkit::{chance, check, choose, ev, exec, fault, probe, range, uniform, weighted};
use simntp::{fixed_to_secs, secs_to_fixed, ClockCall, SimClock};

// ---------------------------------------------------------------------------
// shared oracle state
// ---------------------------------------------------------------------------

#[derive(Clone, Debug, PartialEq)]
enum Op {
    Measure(u64),
    Usable(bool),
    Drop,
}

#[derive(Debug, Default)]
struct Src {
    registered: bool,
    removed: bool,
    usable: bool,
    ops: Vec<Op>,
    cursor: usize,
    /// one-way, non-periodic source: (local receive time, remote - local in fixed point) of its first measurement
    first_oneway: Option<(u64, i64)>,
    messages_seen: u64,
}

struct Oracle {
    sync: SynchronizationConfig,
    algo: AlgorithmConfig,
    clock: Option<SimClock>,
    synced: bool,
    accumulated: i128,
    srcs: BTreeMap<u64, Src>,
    published_leap: NtpLeapIndicator,
    clock_seq: u64,
    backward_meddle: bool,
    stopped: bool,
    /// error common to every network server (their shared upstream jumped); PPS-like sources are local hardware and unaffected
    common_err: f64,
}

type Shared = Arc<Mutex<Oracle>>;

thread_local! {
    static CURRENT: RefCell<Option<Shared>> = const { RefCell::new(None) };
}

fn thr_str(t: &StepThreshold) -> String {
    format!(
        "fwd={:?} bwd={:?}",
        t.forward.map(|d| d.to_seconds()),
        t.backward.map(|d| d.to_seconds())
    )
}

impl Oracle {
    /// Examine the clock calls made since the last look; `in_time_update`: the call was the slew-end timer.
    fn check_clock_calls(&mut self, what: &str) -> (bool, Vec<ClockCall>) {
        let clock = self.clock.clone().expect("clock");
        let calls = clock.calls_since(self.clock_seq);
        self.clock_seq = clock.next_seq();
        let mut steered = false;
        let mut out = vec![];
        for c in &calls {
            match &c.call {
                ClockCall::Step(d) => {
                    steered = true;
                    let dur = dur_from_fixed(*d);
                    if !self.synced {
                        probe("startup-step");
                        check!(
                            "C01",
                            "startup-step-within-threshold",
                            self.sync.startup_step_panic_threshold.is_within(dur),
                            "{what}: step of {} s before first synchronisation, startup threshold {}",
                            fixed_to_secs(*d),
                            thr_str(&self.sync.startup_step_panic_threshold)
                        );
                    } else {
                        probe("post-startup-step");
                        check!(
                            "C01",
                            "single-step-within-threshold",
                            self.sync.single_step_panic_threshold.is_within(dur),
                            "{what}: step of {} s after synchronisation, single-step threshold {}",
                            fixed_to_secs(*d),
                            thr_str(&self.sync.single_step_panic_threshold)
                        );
                        self.accumulated += (*d as i128).abs();
                        if let Some(acc) = self.sync.accumulated_step_panic_threshold {
                            let lim = ntp_proto::verif::dur_to_fixed(acc) as i128;
                            check!(
                                "C01",
                                "accumulated-steps-within-threshold",
                                self.accumulated <= lim,
                                "{what}: accumulated |steps| {} s exceeds threshold {} s after step {} s",
                                self.accumulated as f64 / 4294967296.0,
                                acc.to_seconds(),
                                fixed_to_secs(*d)
                            );
                            if self.accumulated * 2 > lim {
                                probe("accumulated-over-half");
                            }
                        }
                    }
                }
                ClockCall::SetFrequency(f) => {
                    steered = true;
                    check!(
                        "C02",
                        "set-frequency-within-max-steer",
                        f.abs() <= self.algo.maximum_frequency_steer,
                        "{what}: set_frequency({f:e}) outside +-{:e}",
                        self.algo.maximum_frequency_steer
                    );
                    check!("C06", "frequency-finite", f.is_finite(), "{what}: set_frequency({f})");
                    if f.abs() == self.algo.maximum_frequency_steer {
                        probe("freq-clamped");
                    }
                }
                ClockCall::ErrorEstimate { est, max } => {
                    check!(
                        "C06",
                        "error-estimate-nonnegative",
                        *est >= 0 && *max >= 0,
                        "{what}: error_estimate_update(est={est}, max={max})"
                    );
                }
                _ => {}
            }
            out.push(c.call.clone());
        }
        (steered, out)
    }
}

// ---------------------------------------------------------------------------
// Spy: the controller as the wrapper sees it, with monitors around every call
// ---------------------------------------------------------------------------

pub struct Spy {
    inner: KalmanClockController<SimClock>,
    sh: Shared,
}

fn finite_snapshot(ts: &ntp_proto::TimeSnapshot) -> bool {
    ts.root_variance_base.is_finite()
        && ts.root_variance_linear.is_finite()
        && ts.root_variance_quadratic.is_finite()
        && ts.root_variance_cubic.is_finite()
}

impl Spy {
    fn after_update(
        &mut self,
        what: &str,
        decision: Option<Vec<ntp_proto::verif::SourceView>>,
        update: &InternalStateUpdate<KalmanControllerMessage>,
        is_time_update: bool,
    ) {
        let view = self.inner.verif_view();
        let mut o = self.sh.lock().unwrap();
        let (clock_steered, calls) = o.check_clock_calls(what);
        let algo = o.algo;
        let sync = o.sync;

        // C02: slew frequency bound, slew end
        check!(
            "C02",
            "slew-frequency-within-max",
            view.desired_freq.abs() <= algo.slew_maximum_frequency_offset,
            "{what}: slew frequency {:e} exceeds slew maximum {:e}",
            view.desired_freq,
            algo.slew_maximum_frequency_offset
        );
        if view.desired_freq != 0.0 {
            probe("slew-active");
        }
        if is_time_update {
            check!(
                "C02",
                "slew-ended-by-timer",
                view.desired_freq == 0.0,
                "time_update left slew frequency {:e}",
                view.desired_freq
            );
            return;
        }

        // C06: published numbers finite
        if let Some(ts) = &update.time_snapshot {
            check!("C06", "snapshot-finite", finite_snapshot(ts), "{what}: non-finite TimeSnapshot {ts:?}");
        }
        check!(
            "C06",
            "controller-frequency-state-finite",
            view.desired_freq.is_finite() && view.freq_offset.is_finite(),
            "{what}: desired_freq={} freq_offset={}",
            view.desired_freq,
            view.freq_offset
        );

        let steered = clock_steered || update.used_sources.is_some() || update.next_update.is_some();

        // C03: consensus behind every steering decision
        let radius = |s: &ntp_proto::verif::SourceView| s.offset_uncertainty * algo.range_statistical_weight + s.delay * algo.range_delay_weight;
        let ok_quality = |s: &ntp_proto::verif::SourceView| {
            s.usable && s.has_snapshot && s.synchronized && radius(s) <= algo.maximum_source_uncertainty
        };
        match &decision {
            None => {
                check!(
                    "C03",
                    "no-steer-without-decision",
                    !steered,
                    "{what}: clock steered although no estimate update could take place (calls {calls:?})"
                );
            }
            Some(dec) => {
                let eligible: Vec<&ntp_proto::verif::SourceView> = dec.iter().filter(|s| ok_quality(s) && !s.periodic).collect();
                let mut m = 0usize;
                for a in &eligible {
                    let p = a.offset - radius(a);
                    let c = eligible.iter().filter(|b| b.offset - radius(b) <= p && p <= b.offset + radius(b)).count();
                    m = m.max(c);
                }
                if eligible.len() >= 2 && m * 2 == eligible.len() {
                    probe("consensus-tie");
                }
                ev!("ctl consensus m={m} eligible={} of {}", eligible.len(), dec.len());
                if steered {
                    probe("steer-decision");
                    check!(
                        "C03",
                        "steer-needs-min-agreeing",
                        m >= sync.minimum_agreeing_sources,
                        "{what}: steered with only {m} agreeing sources, minimum {} (eligible {}) calls {calls:?}",
                        sync.minimum_agreeing_sources,
                        eligible.len()
                    );
                    check!(
                        "C03",
                        "steer-needs-strict-majority",
                        m * 2 > eligible.len(),
                        "{what}: steered with {m} agreeing of {} eligible sources (no strict majority)",
                        eligible.len()
                    );
                } else {
                    simkit::oracle("C03");
                }
                if let Some(used) = &update.used_sources {
                    for id in used {
                        let sv = dec.iter().find(|s| s.id == *id);
                        check!(
                            "C03",
                            "used-sources-are-eligible",
                            sv.map(|s| ok_quality(s)).unwrap_or(false),
                            "{what}: used source {id} is unusable, unsynchronised, too uncertain or unknown: {sv:?}"
                        );
                    }
                    // C04: leap vote over the selected sources
                    let flags: Vec<NtpLeapIndicator> = used.iter().filter_map(|id| dec.iter().find(|s| s.id == *id).map(|s| s.leap)).collect();
                    let known: Vec<&NtpLeapIndicator> = flags.iter().filter(|l| **l != NtpLeapIndicator::Unknown).collect();
                    let mut winner = None;
                    for cand in [NtpLeapIndicator::NoWarning, NtpLeapIndicator::Leap59, NtpLeapIndicator::Leap61] {
                        let c = known.iter().filter(|l| ***l == cand).count();
                        if c * 2 > known.len() {
                            winner = Some(cand);
                        }
                    }
                    let status_calls: Vec<&ClockCall> = calls.iter().filter(|c| matches!(c, ClockCall::Status(_))).collect();
                    let published = update.time_snapshot.map(|t| t.leap_indicator);
                    match winner {
                        Some(l) => {
                            if l != NtpLeapIndicator::NoWarning {
                                probe("leap-warning-majority");
                            }
                            check!(
                                "C04",
                                "majority-leap-handed-to-kernel",
                                status_calls.len() == 1 && *status_calls[0] == ClockCall::Status(l),
                                "{what}: strict majority of selected sources report {l:?} (flags {flags:?}) but status calls were {status_calls:?}"
                            );
                            check!(
                                "C04",
                                "majority-leap-published",
                                published == Some(l),
                                "{what}: majority {l:?} but published {published:?}"
                            );
                            o.published_leap = l;
                        }
                        None => {
                            probe("leap-no-majority");
                            check!(
                                "C04",
                                "no-majority-keeps-previous",
                                status_calls.is_empty() && published == Some(o.published_leap),
                                "{what}: no strict majority among {flags:?} but status calls {status_calls:?}, published {published:?}, previous {:?}",
                                o.published_leap
                            );
                        }
                    }
                } else {
                    let status_calls = calls.iter().filter(|c| matches!(c, ClockCall::Status(_))).count();
                    check!(
                        "C04",
                        "no-selection-no-leap-change",
                        status_calls == 0 && update.time_snapshot.map(|t| t.leap_indicator == o.published_leap).unwrap_or(true),
                        "{what}: leap indicator changed without a selection"
                    );
                }

                // C37: the controller's idea of who is registered/usable equals what it was told
                let model: Vec<(u64, bool)> = o.srcs.iter().filter(|(_, s)| s.registered && !s.removed).map(|(k, s)| (*k, s.usable)).collect();
                let seen: Vec<(u64, bool)> = dec.iter().map(|s| (clock_id_raw(s.id), s.usable)).collect();
                check!(
                    "C37",
                    "controller-view-matches-registrations",
                    model == seen,
                    "{what}: controller sees (id,usable) {seen:?}, processed registrations/usability say {model:?}"
                );
            }
        }
        if let Some(used) = &update.used_sources {
            for id in used {
                let ok = o.srcs.get(&clock_id_raw(*id)).map(|s| s.registered && !s.removed && s.usable).unwrap_or(false);
                check!(
                    "C37",
                    "used-sources-registered-and-usable",
                    ok,
                    "{what}: used source {id} is not currently registered and last reported usable"
                );
            }
            o.synced = true;
        }
    }

    /// Match a processed event against the per-source production order.
    fn match_op(&self, id: ClockId, seen: Op) {
        let mut o = self.sh.lock().unwrap();
        let raw = clock_id_raw(id);
        let Some(s) = o.srcs.get_mut(&raw) else {
            simkit::violation("C37", "event-for-unknown-source", format!("controller processed {seen:?} for never-registered source {id}"));
            return;
        };
        simkit::oracle("C37");
        let mut i = s.cursor;
        let mut found = None;
        while i < s.ops.len() {
            if s.ops[i] == seen {
                found = Some(i);
                break;
            }
            // only measurements may be skipped (they need not produce a message)
            if !matches!(s.ops[i], Op::Measure(_)) {
                break;
            }
            i += 1;
        }
        match found {
            Some(i) => s.cursor = i + 1,
            None => {
                let detail = format!(
                    "source {id}: controller processed {seen:?} out of production order (cursor {} of ops {:?})",
                    s.cursor,
                    &s.ops[s.cursor.min(s.ops.len())..s.ops.len().min(s.cursor + 6)]
                );
                drop(o);
                simkit::violation("C37", "per-source-order", detail);
            }
        }
    }
}

impl InternalTimeSyncController for Spy {
    type Clock = SimClock;
    type AlgorithmConfig = AlgorithmConfig;
    type ControllerMessage = KalmanControllerMessage;
    type SourceMessage = KalmanSourceMessage;
    type NtpSourceController = <KalmanClockController<SimClock> as InternalTimeSyncController>::NtpSourceController;
    type OneWaySourceController = <KalmanClockController<SimClock> as InternalTimeSyncController>::OneWaySourceController;

    fn new(clock: SimClock, sync: SynchronizationConfig, algo: AlgorithmConfig) -> Result<Self, <SimClock as NtpClock>::Error> {
        let sh = CURRENT.with(|c| c.borrow().clone()).expect("w2 context");
        sh.lock().unwrap().clock = Some(clock.clone());
        let inner = KalmanClockController::new(clock, sync, algo)?;
        Ok(Spy { inner, sh })
    }

    fn take_control(&mut self) -> Result<(), <SimClock as NtpClock>::Error> {
        let r = self.inner.take_control();
        // calls made while taking control are not steering decisions
        let mut o = self.sh.lock().unwrap();
        let _ = o.check_clock_calls("take_control");
        r
    }

    fn add_source(&mut self, id: ClockId, cfg: SourceConfig) -> Self::NtpSourceController {
        ev!("ctl add_source {id}");
        {
            let mut o = self.sh.lock().unwrap();
            let s = o.srcs.entry(clock_id_raw(id)).or_default();
            s.registered = true;
        }
        self.inner.add_source(id, cfg)
    }

    fn add_one_way_source(&mut self, id: ClockId, cfg: SourceConfig, noise: f64, acc: f64, period: Option<f64>) -> Self::OneWaySourceController {
        ev!("ctl add_one_way_source {id} period={period:?}");
        {
            let mut o = self.sh.lock().unwrap();
            let s = o.srcs.entry(clock_id_raw(id)).or_default();
            s.registered = true;
        }
        self.inner.add_one_way_source(id, cfg, noise, acc, period)
    }

    fn remove_source(&mut self, id: ClockId) {
        ev!("ctl remove_source {id}");
        self.match_op(id, Op::Drop);
        self.inner.remove_source(id);
        let view = self.inner.verif_view();
        check!(
            "C37",
            "removed-source-forgotten",
            !view.sources.iter().any(|s| s.id == id),
            "source {id} still known to the controller after remove_source"
        );
        let mut o = self.sh.lock().unwrap();
        if let Some(s) = o.srcs.get_mut(&clock_id_raw(id)) {
            s.removed = true;
        }
    }

    fn source_update(&mut self, id: ClockId, usable: bool) {
        ev!("ctl source_update {id} usable={usable}");
        self.match_op(id, Op::Usable(usable));
        let before = format!("{:?}", self.inner.verif_view());
        self.inner.source_update(id, usable);
        let mut o = self.sh.lock().unwrap();
        let removed = o.srcs.get(&clock_id_raw(id)).map(|s| s.removed).unwrap_or(true);
        if removed {
            probe("late-usability-after-removal");
            let after = format!("{:?}", self.inner.verif_view());
            check!("C37", "late-message-ignored", before == after, "usability change for removed source {id} altered the controller: {before} -> {after}");
        } else if let Some(s) = o.srcs.get_mut(&clock_id_raw(id)) {
            s.usable = usable;
        }
        let (steered, calls) = o.check_clock_calls("source_update");
        check!("C03", "usability-change-does-not-steer", !steered, "source_update({id},{usable}) made clock calls {calls:?}");
    }

    fn source_message(&mut self, id: ClockId, message: KalmanSourceMessage) -> InternalStateUpdate<KalmanControllerMessage> {
        let t = ts_to_fixed(message.verif_time());
        ev!(
            "ctl source_message {id} t={t} off={:e} unc={:e} delay={:e} leap={:?}",
            message.verif_offset(),
            message.verif_uncertainty(),
            message.verif_delay(),
            message.verif_leap()
        );
        check!(
            "C06",
            "source-estimate-finite",
            message.verif_offset().is_finite()
                && message.verif_uncertainty().is_finite()
                && message.verif_uncertainty() >= 0.0
                && message.verif_delay().is_finite(),
            "source {id} reports offset={} uncertainty={} delay={}",
            message.verif_offset(),
            message.verif_uncertainty(),
            message.verif_delay()
        );
        self.match_op(id, Op::Measure(t));
        {
            // C05, one-way part: the very first estimate of a one-way source is its first
            // measurement, which must be remote time minus local time
            let mut o = self.sh.lock().unwrap();
            if let Some(e) = o.srcs.get_mut(&clock_id_raw(id)) {
                e.messages_seen += 1;
                if e.messages_seen == 1 {
                    if let Some((local, want)) = e.first_oneway {
                        if local == t {
                            let want_s = fixed_to_secs(want);
                            check!(
                                "C05",
                                "one-way-offset-is-remote-minus-local",
                                (message.verif_offset() - want_s).abs() <= 1e-9 * want_s.abs() + 1e-9,
                                "one-way source {id}: first estimate {} but remote - local = {want_s}",
                                message.verif_offset()
                            );
                        }
                    }
                }
            }
        }
        let removed = self.sh.lock().unwrap().srcs.get(&clock_id_raw(id)).map(|s| s.removed).unwrap_or(true);
        let decision = self.inner.verif_decision_view(id, &message);
        if removed {
            probe("late-measurement-after-removal");
            let before = format!("{:?}", self.inner.verif_view());
            let update = self.inner.source_message(id, message);
            let after = format!("{:?}", self.inner.verif_view());
            let mut o = self.sh.lock().unwrap();
            let (steered, calls) = o.check_clock_calls("late source_message");
            check!(
                "C37",
                "late-message-ignored",
                before == after && !steered && update.used_sources.is_none() && update.source_message.is_none(),
                "measurement for removed source {id} had an effect: calls {calls:?}, view {before} -> {after}"
            );
            return update;
        }
        let update = self.inner.source_message(id, message);
        ev!(
            "ctl -> used={:?} msg={} next={:?} view={}",
            update.used_sources,
            update.source_message.is_some(),
            update.next_update,
            match &decision {
                None => "skipped".to_string(),
                Some(d) => d
                    .iter()
                    .map(|s| format!("{}:{}{}{:.6}", s.id, if s.usable { "u" } else { "-" }, if s.has_snapshot { "s" } else { "-" }, s.offset))
                    .collect::<Vec<_>>()
                    .join(","),
            }
        );
        self.after_update("source_message", decision, &update, false);
        update
    }

    fn time_update(&mut self) -> InternalStateUpdate<KalmanControllerMessage> {
        ev!("ctl time_update");
        probe("slew-end-timer");
        let update = self.inner.time_update();
        self.after_update("time_update", None, &update, true);
        update
    }
}

// ---------------------------------------------------------------------------
// world
// ---------------------------------------------------------------------------

type Ctrl = TimeSyncControllerWrapper<Spy>;

#[derive(Clone, Copy, Debug, PartialEq)]
enum Kind {
    TwoWay,
    OneWay,
    Periodic,
}

#[derive(Clone, Debug)]
struct ServerTruth {
    /// true offset error of this server's clock (s)
    err: f64,
    falseticker: bool,
    base_delay: f64,
    jitter: f64,
    asym: f64,
    leap: NtpLeapIndicator,
    root_delay: f64,
    root_disp: f64,
    extreme: bool,
    huge_ok: bool,
}

fn ticks(ns: u64) -> u64 {
    (((ns as u128) << 32) / 1_000_000_000u128) as u64
}

fn swarm_threshold(label: &'static str) -> StepThreshold {
    let opts: [Option<f64>; 6] = [None, Some(1800.0), Some(1000.0), Some(1.0), Some(0.05), Some(1e-4)];
    let f = opts[choose(label, 6) as usize];
    let b = if chance("thr.asym", 0.4) { opts[choose("thr.bwd", 6) as usize] } else { f };
    StepThreshold {
        forward: f.map(NtpDuration::from_seconds),
        backward: b.map(NtpDuration::from_seconds),
    }
}

fn leap_for(i: u64) -> NtpLeapIndicator {
    match i {
        0 => NtpLeapIndicator::NoWarning,
        1 => NtpLeapIndicator::Leap61,
        2 => NtpLeapIndicator::Leap59,
        3 => NtpLeapIndicator::Unknown,
        _ => NtpLeapIndicator::Unsynchronized,
    }
}

enum Handle {
    Two(<Ctrl as TimeSyncController>::NtpSourceController),
    One(<Ctrl as TimeSyncController>::OneWaySourceController),
}

impl Handle {
    fn set_usable(&mut self, u: bool) {
        match self {
            Handle::Two(h) => h.set_usable(u),
            Handle::One(h) => h.set_usable(u),
        }
    }
    fn measure(&mut self, m: Measurement) {
        // the wrapper and the per-source filter are real code: a panic here is the daemon's
        let r = exec::catch(std::panic::AssertUnwindSafe(|| match self {
            Handle::Two(h) => h.handle_measurement(m),
            Handle::One(h) => h.handle_measurement(m),
        }));
        if let Err(msg) = r {
            simkit::violation("C06", "source-controller-panic", format!("handle_measurement panicked: {msg}"));
        }
    }
    fn observe(&self) -> ntp_proto::ObservableSourceTimedata {
        let r = exec::catch(std::panic::AssertUnwindSafe(|| match self {
            Handle::Two(h) => h.observe(),
            Handle::One(h) => h.observe(),
        }));
        match r {
            Ok(o) => o,
            Err(msg) => {
                simkit::violation("C06", "source-controller-panic", format!("observe() panicked: {msg}"));
                ntp_proto::ObservableSourceTimedata::default()
            }
        }
    }
    fn desired_poll(&self) -> PollInterval {
        match self {
            Handle::Two(h) => h.desired_poll_interval(),
            Handle::One(h) => h.desired_poll_interval(),
        }
    }
}

struct SrcTask {
    idx: usize,
    kind: Kind,
    ctrl: Arc<Ctrl>,
    sh: Shared,
    clock: SimClock,
    epoch_true: u64,
    truth: ServerTruth,
    cfg: SourceConfig,
    nops: u64,
    spacing_bias: u64,
    /// scripted source: only measures, short spacing, lives until `live_ns`
    scenario: bool,
    live_ns: u64,
}

impl SrcTask {
    fn register(&self) -> (ClockId, Handle) {
        let id = ClockId::new();
        let h = match self.kind {
            Kind::TwoWay => Handle::Two(self.ctrl.add_source(id, self.cfg)),
            Kind::OneWay => Handle::One(self.ctrl.add_one_way_source(id, self.cfg, 1e-6, 1e-5, None)),
            Kind::Periodic => Handle::One(self.ctrl.add_one_way_source(id, self.cfg, 1e-7, 1e-6, Some(1.0))),
        };
        (id, h)
    }

    fn push_op(&self, id: ClockId, op: Op) {
        self.sh.lock().unwrap().srcs.entry(clock_id_raw(id)).or_default().ops.push(op);
    }

    fn server_raw(&self, now_ns: u64, extra: f64) -> u64 {
        let common = if self.kind == Kind::Periodic { 0.0 } else { self.sh.lock().unwrap().common_err };
        self.epoch_true
            .wrapping_add(ticks(now_ns))
            .wrapping_add(secs_to_fixed(self.truth.err + common + extra) as u64)
    }

    async fn one_measurement(&self, id: ClockId, h: &mut Handle) {
        let t = &self.truth;
        let spike = if t.extreme && chance("src.delay-spike", 0.1) {
            fault("delay-spike");
            [0.5, 5.0, 60.0, 240.0][choose("src.spike", 4) as usize]
        } else {
            0.0
        };
        let d1 = (t.base_delay * (1.0 + t.asym) + uniform("src.j1", 0.0, t.jitter)).max(0.0) + spike;
        let d2 = (t.base_delay * (1.0 - t.asym) + uniform("src.j2", 0.0, t.jitter)).max(0.0);
        // periodic (PPS-like) sources only measure modulo their period; the filter's period
        // correction loops O(offset/period), so hour-sized outliers are not fed to them
        let outlier = if t.extreme && self.kind != Kind::Periodic && chance("src.outlier", 0.05) {
            fault("offset-outlier");
            [1.0, -1.0, 3600.0, -86400.0, 2147483000.0, -2147483000.0][choose("src.outlier.v", if t.huge_ok { 6 } else { 4 }) as usize]
        } else {
            0.0
        };
        let leap = t.leap;
        let meta = |sender_id, receiver_id, sender_ts, receiver_ts| Measurement {
            sender_id,
            receiver_id,
            sender_ts,
            receiver_ts,
            root_delay: NtpDuration::from_seconds(t.root_delay),
            root_dispersion: NtpDuration::from_seconds(t.root_disp),
            leap,
            precision: -20,
        };
        match self.kind {
            Kind::TwoWay => {
                // the daemon's NTP source task reports the source's estimate at its poll timer too
                let ob = h.observe();
                simkit::oracle("C06");
                if ob.uncertainty.to_seconds() < 0.0 {
                    simkit::violation("C06", "observed-uncertainty-nonnegative", format!("source {id} observe() at poll time: uncertainty {}", ob.uncertainty.to_seconds()));
                }
                let t1 = self.clock.raw_now();
                exec::sleep_ns((d1 * 1e9) as u64).await;
                let t2 = self.server_raw(simkit::now_ns(), outlier);
                // server processing time: 10 us
                let t3 = t2.wrapping_add(secs_to_fixed(1e-5) as u64);
                exec::sleep_ns((d2 * 1e9) as u64 + 10_000).await;
                let t4 = self.clock.raw_now();
                self.push_op(id, Op::Measure(t4));
                ev!("src{} measure id={id} t1={t1} t2={t2} t3={t3} t4={t4}", self.idx);
                h.measure(meta(ClockId::SYSTEM, id, ts_from_fixed(t1), ts_from_fixed(t2)));
                h.measure(meta(id, ClockId::SYSTEM, ts_from_fixed(t3), ts_from_fixed(t4)));
            }
            Kind::OneWay | Kind::Periodic => {
                let noise = uniform("src.ownoise", -t.jitter, t.jitter);
                let remote = self.server_raw(simkit::now_ns(), outlier + noise);
                let local = self.clock.raw_now();
                self.push_op(id, Op::Measure(local));
                if self.kind == Kind::OneWay {
                    let mut o = self.sh.lock().unwrap();
                    let e = o.srcs.entry(clock_id_raw(id)).or_default();
                    if e.first_oneway.is_none() && e.messages_seen == 0 {
                        e.first_oneway = Some((local, remote.wrapping_sub(local) as i64));
                    }
                }
                ev!("src{} oneway id={id} remote={remote} local={local}", self.idx);
                let mut m = meta(id, ClockId::SYSTEM, ts_from_fixed(remote), ts_from_fixed(local));
                m.leap = NtpLeapIndicator::Unknown.max_known(leap);
                h.measure(m);
            }
        }
        // C06: what the daemon reports for this source
        let ob = h.observe();
        simkit::oracle("C06");
        let unc = ob.uncertainty.to_seconds();
        if unc < 0.0 {
            simkit::violation("C06", "observed-uncertainty-nonnegative", format!("source {id} observe() uncertainty {unc}"));
        }
        let p = h.desired_poll().as_log();
        check!(
            "C10",
            "filter-desired-poll-within-limits",
            p >= self.cfg.poll_interval_limits.min.as_log() && p <= self.cfg.poll_interval_limits.max.as_log(),
            "source {id} desired poll {p} outside {:?}",
            self.cfg.poll_interval_limits
        );
    }

    async fn run(mut self) {
        let (mut id, mut h) = self.register();
        let mut usable = false;
        if self.scenario || !chance("src.start-unusable", 0.15) {
            self.push_op(id, Op::Usable(true));
            h.set_usable(true);
            usable = true;
        }
        for _ in 0..self.nops {
            if simkit::out_of_budget() || exec::has_crashed() {
                break;
            }
            // scenario sources all live for the same 600 simulated seconds, so that every
            // one of them is past its start-up samples while the others still measure
            if self.scenario && simkit::now_ns() > self.live_ns {
                break;
            }
            // spacing: at least 1 ms beyond the exchange itself
            let k = if self.scenario { 1 + choose("src.spacing", 4) } else { weighted("src.spacing", &[6, 6, 5, 4, 3, 2, 2, 1, 1, 1]) as u64 + self.spacing_bias };
            let wait_ns = match k {
                0 => 1_000_000 + choose("src.sp.ms", 999) * 1_000_000,
                k => {
                    let e = (k - 1).min(17);
                    let base = 1u64 << e;
                    base * 1_000_000_000 + choose("src.sp.frac", 1000) * base * 1_000_000
                }
            };
            exec::sleep_ns(wait_ns).await;
            match if self.scenario { 0 } else { weighted("src.op", &[70, 6, 4, 3, 3]) } {
                0 => self.one_measurement(id, &mut h).await,
                1 => {
                    usable = !usable;
                    fault("usable-flip");
                    self.push_op(id, Op::Usable(usable));
                    ev!("src{} set_usable id={id} {usable}", self.idx);
                    h.set_usable(usable);
                }
                2 => {
                    // drop and re-add under a new id (what the daemon does on demobilise / re-resolve)
                    fault("source-drop");
                    self.push_op(id, Op::Drop);
                    ev!("src{} drop id={id}", self.idx);
                    drop(h);
                    if chance("src.readd-delay", 0.5) {
                        exec::sleep_ns(choose("src.readd.ns", 5_000_000_000)).await;
                    }
                    if exec::has_crashed() {
                        return;
                    }
                    fault("source-readd");
                    let (nid, nh) = self.register();
                    id = nid;
                    h = nh;
                    usable = false;
                    if !chance("src.readd-unusable", 0.3) {
                        self.push_op(id, Op::Usable(true));
                        h.set_usable(true);
                        usable = true;
                    }
                }
                3 => {
                    // server clock jumps / turns falseticker / recovers
                    fault("server-jump");
                    let mut mag: f64 = [0.0, 0.003, 0.2, 30.0, -0.2, -30.0, 5000.0][choose("src.jump", 7) as usize];
                    if self.kind == Kind::Periodic {
                        mag = mag.clamp(-30.0, 30.0);
                    }
                    self.truth.err = mag;
                    ev!("src{} server error now {mag}", self.idx);
                }
                _ => {
                    fault("leap-change");
                    self.truth.leap = leap_for(choose("src.leap", 5));
                    ev!("src{} leap now {:?}", self.idx, self.truth.leap);
                }
            }
        }
        // orderly end: drop the source
        if exec::has_crashed() {
            return;
        }
        self.push_op(id, Op::Drop);
        ev!("src{} final drop id={id}", self.idx);
        drop(h);
    }
}

trait LeapExt {
    fn max_known(self, other: NtpLeapIndicator) -> NtpLeapIndicator;
}
impl LeapExt for NtpLeapIndicator {
    /// one-way sources mostly carry Unknown, sometimes the configured flag
    fn max_known(self, other: NtpLeapIndicator) -> NtpLeapIndicator {
        if other == NtpLeapIndicator::Unsynchronized { self } else { other }
    }
}

pub fn run() {
    simntp::reset_hooks();
    let focus = simkit::focus();

    // ---- swarm configuration -------------------------------------------------
    // C01 converse / bounded liveness (DESIGN §5 C01): honest low-jitter servers agree on a large
    // offset D chosen clearly inside or clearly outside the startup threshold; the daemon must then
    // step by about -D, or stop without stepping. Only part of the C01 batch; always fault-free.
    let scenario = focus == "C01" && chance("cfg.c01-scenario", 0.3);
    // C06 scenario: a PPS-like periodic source that has settled, then the upstream of all network
    // servers is corrected by X (so the daemon follows with a step), then steering continues for a
    // long time: exercises the periodic filter's step/frequency feedback far from start-up.
    let pps = focus == "C06" && !scenario && chance("cfg.c06-pps", 0.12);
    let scripted = scenario || pps;
    let clean = scenario || (!pps && chance("cfg.faulty", 0.75) == false);
    let n_src = if pps { 3 + choose("cfg.nsrc", 2) as usize } else if scenario { 2 + choose("cfg.nsrc", 3) as usize } else { 2 + choose("cfg.nsrc", 8) as usize }; // 2..=9
    let mut sync = SynchronizationConfig::default();
    sync.minimum_agreeing_sources = 1 + weighted("cfg.minagree", &[4, 3, 2, 1]);
    sync.startup_step_panic_threshold = swarm_threshold("cfg.thr.startup");
    sync.single_step_panic_threshold = swarm_threshold("cfg.thr.single");
    sync.accumulated_step_panic_threshold = [None, Some(0.1), Some(10.0), Some(1000.0)][choose("cfg.thr.acc", 4) as usize].map(NtpDuration::from_seconds);
    let mut scenario_d = 0.0f64;
    let mut scenario_big = false;
    if scenario {
        let thr = [None, Some(1800.0), Some(10.0), Some(1.0)][choose("sc.thr", 4) as usize];
        sync.startup_step_panic_threshold = StepThreshold {
            forward: thr.map(NtpDuration::from_seconds),
            backward: thr.map(NtpDuration::from_seconds),
        };
        // the daemon leaves start-up at its first consensus even if it does not steer then, so the
        // same bound is configured for both phases: whichever applies, 3x is outside and 0.3x inside
        sync.single_step_panic_threshold = sync.startup_step_panic_threshold;
        sync.accumulated_step_panic_threshold = None;
        sync.minimum_agreeing_sources = sync.minimum_agreeing_sources.min(n_src);
        scenario_big = thr.is_some() && chance("sc.big", 0.5);
        let mag = match thr {
            None => 5000.0,
            Some(t) => if scenario_big { 3.0 * t } else { 0.3 * t },
        };
        scenario_d = if chance("sc.neg", 0.5) { -mag } else { mag };
    }
    let mut algo = AlgorithmConfig::default();
    algo.step_threshold = [0.010, 0.0, 0.128, 1e-4, 10.0][choose("cfg.stepthr", 5) as usize];
    algo.maximum_frequency_steer = [495e-6, 100e-6, 1e-6, 5e-3][choose("cfg.maxfreq", 4) as usize];
    algo.slew_maximum_frequency_offset = [200e-6, 10e-6, 1e-3][choose("cfg.slewmax", 3) as usize];
    algo.slew_minimum_duration = [8.0, 1.0, 0.01, 100.0][choose("cfg.slewdur", 4) as usize];
    algo.steer_offset_threshold = [2.0, 1.0, 4.0][choose("cfg.steerthr", 3) as usize];
    if chance("cfg.ignore-disp", 0.2) {
        algo.ignore_server_dispersion = true;
    }
    if scripted {
        algo = AlgorithmConfig::default();
    }
    if pps {
        sync.startup_step_panic_threshold = StepThreshold { forward: None, backward: None };
        sync.single_step_panic_threshold = StepThreshold { forward: None, backward: None };
        sync.accumulated_step_panic_threshold = None;
        sync.minimum_agreeing_sources = sync.minimum_agreeing_sources.min(n_src - 1);
    }
    let kernel_freq = if scripted { 0.0 } else { 1.0 } * [0.0, 20e-6, -400e-6, 2.0 * algo.maximum_frequency_steer, -1.5 * algo.maximum_frequency_steer][weighted("cfg.kfreq", &[4, 2, 2, 1, 1])];
    if kernel_freq.abs() > algo.maximum_frequency_steer {
        fault("bad-initial-kernel-freq");
    }
    let true_freq = [0.0, 10e-6, -35e-6, 200e-6][choose("cfg.truefreq", 4) as usize];
    // epoch: mostly mid-era, sometimes straddling the 2^32 s era boundary
    let epoch_true: u64 = match weighted("cfg.epoch", &[5, 2, 1]) {
        0 => 0xE000_0000u64 << 32,
        1 => {
            fault("era-wrap");
            (u64::MAX - (60u64 << 32)).wrapping_add(choose("cfg.epoch.j", 50) << 32)
        }
        _ => 100u64 << 32,
    };
    let init_off = if scenario { scenario_d } else { [0.0, 0.004, -0.3, 1.5, -90.0, 2500.0, -100_000.0][weighted("cfg.initoff", &[4, 3, 3, 2, 2, 1, 1])] };

    let sh: Shared = Arc::new(Mutex::new(Oracle {
        sync,
        algo,
        clock: None,
        synced: false,
        accumulated: 0,
        srcs: BTreeMap::new(),
        published_leap: NtpLeapIndicator::Unknown,
        clock_seq: 0,
        backward_meddle: false,
        stopped: false,
        common_err: 0.0,
    }));
    CURRENT.with(|c| *c.borrow_mut() = Some(sh.clone()));
    ev!(
        "cfg nsrc={n_src} minagree={} startup[{}] single[{}] acc={:?} stepthr={} maxfreq={:e} slewmax={:e} slewdur={} kfreq={:e} truefreq={:e} initoff={} clean={clean}",
        sync.minimum_agreeing_sources,
        thr_str(&sync.startup_step_panic_threshold),
        thr_str(&sync.single_step_panic_threshold),
        sync.accumulated_step_panic_threshold.map(|d| d.to_seconds()),
        algo.step_threshold,
        algo.maximum_frequency_steer,
        algo.slew_maximum_frequency_offset,
        algo.slew_minimum_duration,
        kernel_freq,
        true_freq,
        init_off
    );

    let sh2 = sh.clone();
    exec::block_on(async move {
        let clock = SimClock::new("client", epoch_true.wrapping_add(secs_to_fixed(init_off) as u64), true_freq, kernel_freq);
        let ctrl: Arc<Ctrl> = Arc::new(Ctrl::new(clock.clone(), sync, algo).expect("controller"));
        ctrl.take_control().expect("take_control");
        let c2 = ctrl.clone();
        // non-critical: when the daemon stops ("Threshold exceeded") the source tasks notice,
        // wind down, and the end-of-run checks still execute
        let ctl_task = exec::spawn_noncritical("controller", async move { c2.run().await });

        let limits_opts = [(4u8, 10u8), (0, 17), (6, 6), (3, 8)];
        let mut tasks = vec![];
        let (done_tx, mut done_rx) = tokio::sync::mpsc::unbounded_channel::<usize>();
        let heavy = focus == "C06" || chance("cfg.extreme", 0.3);
        let kinds: Vec<Kind> = (0..n_src)
            .collect::<Vec<_>>()
            .iter()
            .enumerate()
            .map(|(i, _)| match if pps { if i == 0 { 2 } else { 0 } } else if scenario { 0 } else { weighted("cfg.kind", &[8, 1, 1]) } {
                0 => Kind::TwoWay,
                1 => Kind::OneWay,
                _ => Kind::Periodic,
            })
            .collect();
        // The filter's period correction is O(offset / period): with a periodic source in the
        // run, keep every offset the daemon may follow below a day so runs stay bounded.
        let has_periodic = kinds.contains(&Kind::Periodic);
        for idx in 0..n_src {
            let kind = kinds[idx];
            let falseticker = !clean && !pps && chance("cfg.falseticker", 0.25);
            let err = if falseticker {
                fault("server-falseticker");
                let e: f64 = [0.05, -0.4, 3.0, -120.0, 4000.0][choose("cfg.fterr", 5) as usize];
                if kind == Kind::Periodic { e.clamp(-120.0, 120.0) } else { e }
            } else {
                // C01 scenario: the premise is that ALL sources agree. The selection interval of a
                // noise-free source shrinks to 0.25 x delay (about 0.5 ms at the smallest delay used
                // here), so two honest servers 1 ms apart are legitimately not in agreement; keep the
                // scenario's server errors well inside that width.
                let w = if scenario { 0.0002 } else { 0.0005 };
                uniform("cfg.err", -w, w)
            };
            let (lo, hi) = limits_opts[choose("cfg.limits", 4) as usize];
            let limits = PollIntervalLimits {
                min: PollInterval::from_byte(lo),
                max: PollInterval::from_byte(hi),
            };
            let leap = if clean || pps { NtpLeapIndicator::NoWarning } else { leap_for(weighted("cfg.leap", &[6, 2, 2, 1, 1]) as u64) };
            let truth = ServerTruth {
                err,
                falseticker,
                base_delay: [0.0002, 0.005, 0.04, 0.0, 0.4][choose("cfg.delay", if scripted { 3 } else { 5 }) as usize],
                jitter: [0.0, 0.00005, 0.002, 0.05][choose("cfg.jitter", if scenario { 2 } else if pps { 3 } else { 4 }) as usize],
                asym: if scripted { 0.0 } else { [0.0, 0.1, -0.5, 0.9][weighted("cfg.asym", &[5, 2, 1, 1])] },
                leap,
                root_delay: [0.001, 0.0, 0.05, 2.0][choose("cfg.rootdelay", if scripted { 2 } else { 4 }) as usize],
                root_disp: [0.001, 0.0, 0.02, 1.0][choose("cfg.rootdisp", if scripted { 2 } else { 4 }) as usize],
                extreme: heavy && !clean && !pps,
                huge_ok: !has_periodic,
            };
            ev!("cfg src{idx} {kind:?} {truth:?} limits=({lo},{hi})");
            let t = SrcTask {
                idx,
                kind,
                ctrl: ctrl.clone(),
                sh: sh2.clone(),
                clock: clock.clone(),
                epoch_true,
                truth,
                cfg: SourceConfig {
                    poll_interval_limits: limits,
                    initial_poll_interval: limits.min,
                },
                nops: if scripted { 2000 } else { 10 + choose("cfg.nops", 120) },
                spacing_bias: if !scripted && chance("cfg.slowpoll", 0.15) { 6 } else { 0 },
                scenario: scripted,
                live_ns: if pps { 2_600_000_000_000 } else { 600_000_000_000 },
            };
            let tx = done_tx.clone();
            tasks.push(exec::spawn(format!("src{idx}"), async move {
                t.run().await;
                let _ = tx.send(idx);
            }));
        }

        // environment task: client clock faults
        if !clean {
            let clock_e = clock.clone();
            let sh_e = sh2.clone();
            let allow_backward = focus != "C06";
            exec::spawn("env", async move {
                if pps {
                    exec::sleep_ns((300 + choose("env.pps.wait", 100)) * 1_000_000_000).await;
                    let x = [-1000.3, -20.3, 50.4, -3.3][choose("env.pps.x", 4) as usize];
                    fault("common-mode-server-jump");
                    probe("pps-scenario-jump");
                    ev!("env all network servers jump by {x}");
                    sh_e.lock().unwrap().common_err += x;
                    return;
                }
                for _ in 0..choose("env.n", 6) {
                    // mostly early (while most sources still measure), sometimes late
                    let span = if chance("env.late", 0.25) { 4000 } else { 400 };
                    exec::sleep_ns(1_000_000_000 + choose("env.wait", span) * 1_000_000_000).await;
                    match choose("env.kind", 4) {
                        3 => {
                            // every network server follows the same upstream, which is corrected by X
                            let x = [-20.0, -1000.3, 50.0, -100.0, 0.4][choose("env.common", 5) as usize];
                            fault("common-mode-server-jump");
                            ev!("env all network servers jump by {x}");
                            sh_e.lock().unwrap().common_err += x;
                        }
                        0 => {
                            let f = [50e-6, -80e-6, 400e-6, 0.0][choose("env.freq", 4) as usize];
                            fault("freq-excursion");
                            ev!("env true frequency now {f:e}");
                            clock_e.set_true_freq(f);
                        }
                        1 => {
                            let j = [7.0, 120.0, 0.3][choose("env.jump", 3) as usize];
                            fault("client-meddle-jump");
                            ev!("env meddle step +{j}");
                            clock_e.meddle_step(secs_to_fixed(j));
                        }
                        _ if allow_backward => {
                            let j = [-7.0, -120.0, -0.3][choose("env.jumpb", 3) as usize];
                            fault("client-meddle-jump-back");
                            ev!("env meddle step {j}");
                            sh_e.lock().unwrap().backward_meddle = true;
                            clock_e.meddle_step(secs_to_fixed(j));
                        }
                        _ => {}
                    }
                }
            });
        }

        // wait for the source tasks, then let the controller drain its queue
        // (a controller crash is critical and ends the run through the multiplexer)
        for _ in 0..tasks.len() {
            let _ = done_rx.recv().await;
        }
        for _ in 0..20 {
            exec::yield_now().await;
        }
        // remaining error of the client clock when the last source stopped (before the idle tail,
        // during which a residual frequency correction would integrate with nobody measuring)
        let remaining_at_end = {
            let true_now = epoch_true.wrapping_add(ticks(simkit::now_ns()));
            fixed_to_secs(clock.raw_now().wrapping_sub(true_now) as i64)
        };
        exec::sleep_ns(2_000_000_000_000).await; // let a pending slew end
        let ctl_alive = exec::task_alive(ctl_task);
        let crashes = exec::crashes();
        for (task, msg) in &crashes {
            if task == "controller" {
                if msg.starts_with("Threshold exceeded") {
                    probe("daemon-stopped-on-threshold");
                    sh2.lock().unwrap().stopped = true;
                } else if msg.contains("Unsynchronized source selected") {
                    simkit::violation("C03", "unsynchronised-source-selected", format!("controller panicked: {msg}"));
                } else if msg.contains("assertion `left == right` failed") && msg.contains("select.rs") {
                    simkit::violation("C03", "selection-sweep-inconsistent", format!("controller panicked: {msg}"));
                } else {
                    simkit::violation("C06", "controller-panic", format!("controller panicked: {msg}"));
                }
            } else {
                simkit::abort(format!("harness task {task} crashed: {msg}"));
            }
        }
        // C01 converse: the consensus-large-offset scenario must end in a step by about -D or in a stop
        if scenario && !simkit::out_of_budget() {
            // every step since creation (calls_since is a bounded window of recent calls)
            let steps: Vec<i64> = clock.steps();
            let stopped = sh2.lock().unwrap().stopped;
            if scenario_big {
                probe("scenario-outside-threshold");
                check!(
                    "C01",
                    "offset-outside-startup-threshold-stops-without-stepping",
                    stopped && steps.is_empty(),
                    "all {n_src} honest sources agree the clock is off by {scenario_d} s (3x the startup threshold) but stopped={stopped}, steps={:?}",
                    steps.iter().map(|d| fixed_to_secs(*d)).collect::<Vec<_>>()
                );
            } else {
                probe("scenario-inside-threshold");
                // the correction may be split over several steps and slews (leftover rule):
                // judge the remaining error of the client clock against true time
                let remaining = remaining_at_end;
                let total: f64 = steps.iter().map(|d| fixed_to_secs(*d)).sum();
                check!(
                    "C01",
                    "offset-inside-startup-threshold-is-corrected",
                    !stopped && !steps.is_empty() && remaining.abs() <= 0.1 * scenario_d.abs() + 0.05,
                    "all {n_src} honest sources agree the clock is off by {scenario_d} s (inside the startup threshold) but stopped={stopped}, steps sum={total}, remaining error={remaining}"
                );
            }
        }
        // C37 completeness: once quiescent, every usability change and drop was processed
        if ctl_alive && crashes.is_empty() && !simkit::out_of_budget() {
            let o = sh2.lock().unwrap();
            for (id, s) in &o.srcs {
                let pending: Vec<&Op> = s.ops[s.cursor.min(s.ops.len())..].iter().filter(|op| !matches!(op, Op::Measure(_))).collect();
                check!(
                    "C37",
                    "all-control-messages-processed",
                    pending.is_empty(),
                    "source {id}: usability changes / drop never reached the controller: {pending:?}"
                );
            }
        }
    });
    CURRENT.with(|c| *c.borrow_mut() = None);
    ntp_proto::verif::clear();
    let _ = fixed_to_secs(0);
    let _ = range("w2.pad", 0, 0);
}
