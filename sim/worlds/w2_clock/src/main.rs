//! W2 — measurement-injection world (DESIGN.md §4): the real
//! `TimeSyncControllerWrapper<Spy<KalmanClockController<SimClock>>>::run` loop
//! plus 2–9 source tasks that call the real source-controller wrappers under
//! the seeded scheduler. Decides C01, C02, C03, C04, C06, C37.

mod world;

use simkit::batch::{cli_main, Level, Property, WorldDef};

fn main() {
    let p = |id, rule| Property {
        id,
        level: Level::Exploration,
        quick_runs: 150_000,
        thorough_runs: 5_000_000,
        quick_wall_s: 75.0,
        thorough_wall_s: 900.0,
        event_cap: 20_000,
        enumerate: None,
        rule,
        assumptions: &[
            "the kernel clock (adjtimex via ntpd/src/daemon/clock.rs) is replaced by SimClock behind the NtpClock trait",
            "measurements are generated from ground-truth server clocks; no packets (see W1 for the packet path)",
        ],
    };
    cli_main(WorldDef {
        name: "w2",
        run: world::run,
        properties: vec![
            p("C01", "one run = one swarm-configured history of 2-9 sources feeding the real controller loop; monitors every step_clock call against the startup / single-step / accumulated thresholds"),
            p("C02", "as C01; monitors every set_frequency argument and the controller's slew frequency after every call"),
            p("C03", "as C01; at every controller decision an independent closed-interval overlap count over the exact decision-time estimates is compared with what the controller did"),
            p("C04", "as C01; at every controller decision the leap vote is recomputed from the used sources' flags"),
            p("C06", "as C01 with adversarial but finite measurement histories at increasing local times; monitors finiteness of every clock argument, source message, snapshot field and observe() output"),
            p("C37", "as C01 with drop / re-add / usability flips racing the controller loop under the seeded scheduler; history checks on registration, usability and per-source order"),
        ],
        real_components: &[
            "ntp_proto::TimeSyncControllerWrapper::run (message loop, slew timer)",
            "ntp_proto::KalmanClockController (select, combine, steering, thresholds)",
            "ntp_proto::TwoWaySourceControllerWrapper / OneWaySourceControllerWrapper",
            "ntp_proto::KalmanSourceController (per-source Kalman filter)",
        ],
        stub_components: &[
            "kernel clock -> SimClock (NtpClock trait)",
            "NtpSource / sockets -> source tasks generating Measurement values from ground-truth clocks",
        ],
    })
}
