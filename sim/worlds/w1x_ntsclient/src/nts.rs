//! NTS-client world: real `NtpSource` state machines configured for NTS (v4 and v5)
//! talking over `SimNet` to the real `Server` (NTS on, keys rotating now and then) or
//! to a malicious-but-authenticated server that holds the session keys, with an on-path
//! adversary forging, replaying and re-encrypting. Decides C07, C13 and (random-history
//! part of) C14; `run_c14_enum` is the exhaustive C14 enumeration.

use std::collections::{BTreeMap, BTreeSet, VecDeque};
use std::net::SocketAddr;
use std::sync::Arc;

use ntp_proto::verif::system::{XBloomView, XSourceView, ntsclient};
use ntp_proto::verif::ts_to_fixed;
use ntp_proto::{
    Cipher, ClockId, FilterAction, FilterList, KeySetProvider, NtpClock, NtpManager, NtpSource, NtpTimestamp, NtpVersion,
    PollInterval, PollIntervalLimits, ProtocolVersion, Server, ServerAction, ServerConfig, SourceConfig, SynchronizationConfig,
};
use simkit::net::{Datagram, Mutation, NetCfg, SimNet};
use simkit::{chance, check, choose, ev, exec, fault, probe, weighted};
use simntp::SimClock;

use crate::common::*;
use crate::wire::{self, Hdr};

const ADV: u32 = 900;

#[derive(Clone, Debug)]
pub enum Kind {
    Request { client: usize, seq: u64 },
    /// answer produced by the holder of the session keys (real server or byzantine) to request `seq`
    Resp {
        client: usize,
        seq: u64,
        /// carries a valid authenticator under the session's s2c key
        authentic: bool,
        /// echoes the request's identifiers in authenticated fields
        bound: bool,
        /// cookies inside the encrypted part (ground truth)
        cookies: Vec<Vec<u8>>,
        /// reference-id chunk inside the authenticated part
        chunk: Option<Vec<u8>>,
        /// unauthenticated bytes were appended after the authenticator by the adversary
        appended: bool,
        tag: &'static str,
    },
    Forged { tag: &'static str },
    AdvProbe { victim: usize },
    AdvReply { victim: usize },
}

#[derive(Clone, Debug)]
pub struct Meta {
    pub kind: Kind,
}

struct Sess {
    alg512: bool,
    c2s: Vec<u8>,
    s2c: Vec<u8>,
    legit: BTreeSet<Vec<u8>>,
    sent: BTreeSet<Vec<u8>>,
    model: VecDeque<Vec<u8>>,
    dup_possible: bool,
}

impl Sess {
    fn s2c_cipher(&self) -> Box<dyn Cipher> {
        ntsclient::cipher(self.alg512, &self.s2c)
    }
    fn model_store(&mut self, c: Vec<u8>) {
        self.legit.insert(c.clone());
        self.model.push_back(c);
        if self.model.len() > 8 {
            self.model.pop_front();
        }
    }
}

struct Client {
    idx: usize,
    addr: u32,
    server: u32,
    byz: bool,
    v5: bool,
    src: Option<NtpSource<Spy>>,
    spy: Spy,
    clock: SimClock,
    next_timer: Option<u64>,
    last_send: Option<NtpTimestamp>,
    seq: u64,
    last_req: Vec<u8>,
    accepted_seq: Option<u64>,
    sess: Sess,
    respawns: u32,
    limits: PollIntervalLimits,
    /// genuine authentic responses seen on the wire, for replays
    seen: Vec<Vec<u8>>,
}

struct Honest {
    addr: u32,
    server: Server<SimClock>,
    provider: KeySetProvider,
    clock: SimClock,
    mgr: NtpManager,
}

fn view(c: &Client) -> XSourceView {
    c.src.as_ref().unwrap().verif_x_view()
}

fn diff(a: &XSourceView, b: &XSourceView) -> String {
    let mut s = vec![];
    if a.stash != b.stash {
        s.push(format!("stash {}->{}", a.stash.len(), b.stash.len()));
    }
    if a.remote_min_poll != b.remote_min_poll {
        s.push(format!("remote_min_poll {}->{}", a.remote_min_poll, b.remote_min_poll));
    }
    if a.protocol_version != b.protocol_version {
        s.push(format!("version {:?}->{:?}", a.protocol_version, b.protocol_version));
    }
    if a.reach != b.reach {
        s.push(format!("reach {:08b}->{:08b}", a.reach, b.reach));
    }
    if a.have_deny_rstr != b.have_deny_rstr {
        s.push("deny-flag".into());
    }
    if a.pending != b.pending {
        s.push("pending-request".into());
    }
    if a.stratum != b.stratum || a.reference_id != b.reference_id {
        s.push("stratum/refid".into());
    }
    if a.bloom != b.bloom {
        s.push("bloom".into());
    }
    if a.tries != b.tries || a.last_poll != b.last_poll {
        s.push("tries/last_poll".into());
    }
    s.join(",")
}

/// C34 clause shared by both worlds: the transfer state changes only through a solicited chunk.
pub fn check_bloom_change(before: &XBloomView, after: &XBloomView, solicited: Option<&[u8]>, ctx: &str) {
    let changed = before.bytes != after.bytes || before.next_to_request != after.next_to_request || before.filled != after.filled;
    if !changed {
        if before.last_requested.is_some() {
            simkit::oracle("C34");
        }
        return;
    }
    let ok = match (solicited, before.last_requested) {
        (Some(ch), Some((off, _))) => {
            let off = off as usize;
            let n = before.chunk_size as usize;
            let mut want = before.bytes;
            let fits = ch.len() == n && off + n <= 512;
            if fits {
                want[off..off + n].copy_from_slice(ch);
            }
            fits && want == after.bytes && after.next_to_request as usize == (off + n) % 512 && after.last_requested.is_none()
        }
        _ => false,
    };
    check!(
        "C34",
        "filter-changes-only-by-solicited-chunk-of-requested-size",
        ok,
        "{ctx}: transfer state changed (next {}->{}, filled {}->{}, bytes changed={}) solicited chunk len={:?} outstanding={:?} chunk_size={}",
        before.next_to_request,
        after.next_to_request,
        before.filled,
        after.filled,
        before.bytes != after.bytes,
        solicited.map(|c| c.len()),
        before.last_requested.map(|l| l.0),
        before.chunk_size
    );
}

fn cookie_on_wire_matches(cookie: &[u8], body: &[u8]) -> bool {
    body.len() >= cookie.len() && &body[..cookie.len()] == cookie && body[cookie.len()..].iter().all(|b| *b == 0) && body.len() <= wire::pad4(cookie.len()).max(12)
}

fn new_client_source(mgr: &NtpManager, c: &mut Client, cookies: &[Vec<u8>]) {
    let mut cfg = SourceConfig::default();
    cfg.poll_interval_limits = c.limits;
    cfg.initial_poll_interval = c.limits.min;
    let nts = ntsclient::nts_data(c.sess.alg512, &c.sess.c2s, &c.sess.s2c, cookies);
    let pv = if c.v5 { ProtocolVersion::V5 } else { ProtocolVersion::V4 };
    let (src, _acts) = mgr.new_source(SocketAddr::new(ip_of(c.server), 123), cfg, pv, c.spy.clone(), Some(nts), ClockId::new());
    c.src = Some(src);
    c.sess.model.clear();
    c.sess.sent.clear();
    c.sess.legit.clear();
    for ck in cookies {
        c.sess.model_store(ck.clone());
    }
    c.seq = 0;
    c.accepted_seq = None;
    c.last_send = None;
    c.seen.clear();
}

fn fresh_keys(alg512: bool, label: &'static str) -> (Vec<u8>, Vec<u8>) {
    let mut r = simkit::sub_rng(label);
    let n = ntsclient::key_len(alg512);
    let a: Vec<u8> = (0..n).map(|_| r.next_u64() as u8).collect();
    let b: Vec<u8> = (0..n).map(|_| r.next_u64() as u8).collect();
    (a, b)
}

struct ByzState {
    counter: u64,
}

impl ByzState {
    fn cookie(&mut self, len: usize) -> Vec<u8> {
        self.counter += 1;
        let mut c = self.counter.to_be_bytes().to_vec();
        c.resize(len.max(8), 0xC0 | (self.counter as u8 & 0x0F));
        c.truncate(len);
        c
    }
}

/// An authenticated answer built by the party holding the session keys.
#[allow(clippy::too_many_arguments)]
fn byz_response(
    req: &[u8],
    s2c: &dyn Cipher,
    hdr_edit: impl FnOnce(&mut Hdr),
    uid_override: Option<Vec<u8>>,
    uid_encrypted_only: bool,
    cookies: &[Vec<u8>],
    chunk: Option<&[u8]>,
    recv: u64,
    xmit: u64,
) -> Vec<u8> {
    let rh = Hdr::parse(req).expect("request header");
    let v5 = rh.v5;
    let mut h = Hdr::answer_to(&rh, 2, *b"BYZ\0", recv, xmit);
    hdr_edit(&mut h);
    let mut out = h.bytes();
    let uid = uid_override.or_else(|| wire::request_uid(req)).unwrap_or_else(|| vec![0; 32]);
    if !uid_encrypted_only {
        out.extend(wire::ef(wire::EF_UID, &uid, 16, v5));
    }
    if v5 {
        if let Some(ch) = chunk {
            out.extend(wire::ef(wire::EF_REFID_RESP, ch, 4, true));
        }
        out.extend(wire::ef(wire::EF_DRAFT_ID, wire::DRAFT, 16, true));
    }
    let mut pt = vec![];
    if uid_encrypted_only {
        pt.extend(wire::ef(wire::EF_UID, &uid, 0, v5));
    }
    for c in cookies {
        pt.extend(wire::ef(wire::EF_COOKIE, c, 0, v5));
    }
    let auth = wire::nts_auth_ef(s2c, &out, &pt);
    out.extend(auth);
    out
}

fn forge_tags(v5: bool) -> &'static [&'static str] {
    if v5 {
        &[
            "forge-v5-kiss-deny",
            "forge-v5-kiss-rate",
            "forge-v5-authnak-only",
            "forge-v5-authnak-deny",
            "forge-v5-authnak-rate",
            "forge-plain-time",
            "forge-reencrypt-own-keys",
            "forge-v5-plain-chunk",
            "forge-offpath-blind-guess",
        ]
    } else {
        &[
            "forge-v4-kiss-deny",
            "forge-v4-kiss-rstr",
            "forge-v4-kiss-rate",
            "forge-v4-kiss-ntsn",
            "forge-plain-time",
            "forge-reencrypt-own-keys",
            "forge-v4-kiss-unknown",
            "forge-offpath-blind-guess",
        ]
    }
}

/// What an on-path attacker can build from a request it saw (it never has the session keys).
fn forge(tag: &'static str, req: &[u8], adv_cipher: &dyn Cipher, now_fixed: u64, junk: &mut simkit::Rng) -> Vec<u8> {
    let rh = Hdr::parse(req).expect("request header");
    let v5 = rh.v5;
    let uid = wire::request_uid(req).unwrap_or_else(|| vec![0; 32]);
    let mut h = Hdr::answer_to(&rh, 2, *b"EVIL", now_fixed, now_fixed);
    let junk_cookie: Vec<u8> = (0..104).map(|_| junk.next_u64() as u8).collect();
    let mut tail_plain_cookies = false;
    let mut chunk = false;
    match tag {
        "forge-v4-kiss-deny" => {
            h.stratum = 0;
            h.word3 = *b"DENY";
        }
        "forge-v4-kiss-rstr" => {
            h.stratum = 0;
            h.word3 = *b"RSTR";
        }
        "forge-v4-kiss-rate" => {
            h.stratum = 0;
            h.word3 = *b"RATE";
        }
        "forge-v4-kiss-ntsn" => {
            h.stratum = 0;
            h.word3 = *b"NTSN";
        }
        "forge-v4-kiss-unknown" => {
            h.stratum = 0;
            h.word3 = *b"XXXX";
        }
        "forge-v5-kiss-deny" => {
            h.stratum = 0;
            h.poll = 127;
            h.word3 = [0, 0, 0, 0];
        }
        "forge-v5-kiss-rate" => {
            h.stratum = 0;
            h.poll = rh.poll.wrapping_add(2).min(126);
            h.word3 = [0, 0, 0, 0];
        }
        "forge-v5-authnak-only" => {
            h.stratum = 0;
            h.poll = 0;
            h.word3 = [0, 0, 0, 0b100];
        }
        "forge-v5-authnak-deny" => {
            h.stratum = 0;
            h.poll = 127;
            h.word3 = [0, 0, 0, 0b100];
        }
        "forge-v5-authnak-rate" => {
            h.stratum = 0;
            h.poll = (rh.poll as i8).max(0) as u8 + 3;
            h.word3 = [0, 0, 0, 0b100];
        }
        "forge-plain-time" => {
            tail_plain_cookies = true;
        }
        "forge-offpath-blind-guess" => {
            // an off-path attacker cannot see the request: guessed identifiers, kiss or time answer
            h.f24 = junk.next_u64();
            if junk.next_u64() % 2 == 0 {
                h.stratum = 0;
                if v5 {
                    h.poll = 127;
                    h.word3 = [0, 0, 0, 0b100];
                } else {
                    h.word3 = *b"DENY";
                }
            }
            let mut out = h.bytes();
            let guess: Vec<u8> = (0..32).map(|_| junk.next_u64() as u8).collect();
            out.extend(wire::ef(wire::EF_UID, &guess, 28, v5));
            if v5 {
                out.extend(wire::ef(wire::EF_DRAFT_ID, wire::DRAFT, 16, true));
            }
            return out;
        }
        "forge-v5-plain-chunk" => {
            chunk = true;
            tail_plain_cookies = true;
        }
        "forge-reencrypt-own-keys" => {
            let mut out = h.bytes();
            out.extend(wire::ef(wire::EF_UID, &uid, 16, v5));
            if v5 {
                out.extend(wire::ef(wire::EF_REFID_RESP, &[0xFF; 16], 4, true));
                out.extend(wire::ef(wire::EF_DRAFT_ID, wire::DRAFT, 16, true));
            }
            let mut pt = vec![];
            for _ in 0..3 {
                pt.extend(wire::ef(wire::EF_COOKIE, &junk_cookie, 0, v5));
            }
            let auth = wire::nts_auth_ef(adv_cipher, &out, &pt);
            out.extend(auth);
            return out;
        }
        _ => unreachable!("unknown forge tag {tag}"),
    }
    let mut out = h.bytes();
    out.extend(wire::ef(wire::EF_UID, &uid, 16, v5));
    if chunk {
        out.extend(wire::ef(wire::EF_REFID_RESP, &[0xFF; 16], 4, true));
    }
    if tail_plain_cookies {
        out.extend(wire::ef(wire::EF_COOKIE, &junk_cookie, 16, v5));
        out.extend(wire::ef(wire::EF_COOKIE, &junk_cookie, 16, v5));
    }
    if v5 {
        out.extend(wire::ef(wire::EF_DRAFT_ID, wire::DRAFT, 16, true));
    } else {
        // RFC 7822: last field at least 28 octets
        let n = out.len();
        if n - 48 < 28 {
            out.resize(48 + 28, 0);
        }
    }
    out
}

struct World {
    net: SimNet<Meta>,
    clients: Vec<Client>,
    honest: Honest,
    byz: ByzState,
    mgr: NtpManager,
    adv_on: bool,
    adv_rate: f64,
    adv_keys: (Vec<u8>, Vec<u8>),
    adv_cookies: VecDeque<Vec<u8>>,
    adv_alg512: bool,
    byz_weird: bool,
    clean: bool,
    polls_left: u64,
}

fn on_timer(w: &mut World, ci: usize, now: u64) {
    let before = view(&w.clients[ci]);
    let res = {
        let c = &mut w.clients[ci];
        let src = c.src.as_mut().unwrap();
        exec::catch(|| collect(src.handle_timer()))
    };
    let c = &mut w.clients[ci];
    let ctx = format!("nts client{} v5={} stash_before={:?}", c.idx, c.v5, before.stash.iter().map(|x| x.len()).collect::<Vec<_>>());
    check_c14(&res, &ctx);
    c.next_timer = None;
    let a = match res {
        Ok(a) => a,
        Err(msg) => {
            ev!("client{} timer PANIC {msg}", c.idx);
            c.src = None;
            return;
        }
    };
    let after = view(c);
    check_bloom_change(&before.bloom, &after.bloom, None, "handle_timer");
    if a.reset || a.demobilize {
        ev!("client{} timer -> {}", c.idx, if a.reset { "Reset" } else { "Demobilize" });
        probe(if a.reset { "source-reset" } else { "source-demobilize" });
        // a source with cookies left and a reachable server must not give up for lack of cookies
        if a.reset && before.stash.is_empty() {
            probe("reset-out-of-cookies");
        }
        c.src = None;
        return;
    }
    let Some(p) = a.send.first().cloned() else {
        c.src = None;
        return;
    };
    w.polls_left = w.polls_left.saturating_sub(1);
    c.seq += 1;
    c.last_req = p.clone();
    c.last_send = Some(c.clock.now().unwrap());
    // ---- C13 / C07 history clauses on the request just built ----
    let efs = wire::walk(&p, c.v5);
    let cookie_ef = efs.iter().find(|e| e.ty == wire::EF_COOKIE);
    let placeholders = efs.iter().filter(|e| e.ty == wire::EF_PLACEHOLDER).count();
    let expected = c.sess.model.pop_front();
    match (cookie_ef, &expected) {
        (Some(e), Some(x)) => {
            check!(
                "C13",
                "oldest-cookie-first",
                cookie_on_wire_matches(x, &e.body),
                "client{} request {} carries cookie {} (len {}) but the oldest held cookie is {} (len {})",
                c.idx,
                c.seq,
                hex(&e.body),
                e.body.len(),
                hex(x),
                x.len()
            );
            let fresh = c.sess.sent.insert(x.clone());
            if !c.sess.dup_possible {
                check!("C13", "cookie-used-at-most-once", fresh, "client{} request {} re-uses cookie {}", c.idx, c.seq, hex(x));
            }
            check!(
                "C07",
                "sent-cookie-came-from-ke-or-authenticated-response",
                c.sess.legit.iter().any(|l| cookie_on_wire_matches(l, &e.body)),
                "client{} request {} carries cookie {} that was never delivered by key exchange or inside an authenticated response",
                c.idx,
                c.seq,
                hex(&e.body)
            );
            let missing = 8 - c.sess.model.len();
            let asked = 1 + placeholders;
            let ph_size = (wire::pad4(x.len()) + 4).max(16);
            let size_limited = asked < missing && p.len() + ph_size > 1024 - 400;
            check!(
                "C13",
                "asks-for-exactly-the-missing-cookies",
                asked == missing || size_limited,
                "client{} request {}: holds {} cookies after taking one, asks for {} new ones (packet {} bytes, placeholder {} bytes)",
                c.idx,
                c.seq,
                c.sess.model.len(),
                asked,
                p.len(),
                ph_size
            );
        }
        (Some(e), None) => {
            check!("C13", "oldest-cookie-first", false, "client{} sent cookie {} although the model holds none", c.idx, hex(&e.body));
        }
        (None, _) => {
            check!("C13", "oldest-cookie-first", false, "client{} NTS request {} carries no cookie", c.idx, c.seq);
        }
    }
    let model: Vec<Vec<u8>> = c.sess.model.iter().cloned().collect();
    check!(
        "C13",
        "stash-matches-fifo-of-eight-newest",
        after.stash == model && after.stash.len() <= 8,
        "client{} after request {}: implementation holds {:?}, model {:?}",
        c.idx,
        c.seq,
        after.stash.iter().map(|x| hex(x)).collect::<Vec<_>>(),
        model.iter().map(|x| hex(x)).collect::<Vec<_>>()
    );
    let obs = c.src.as_ref().unwrap().observe("x".into(), ClockId::new());
    check!("C13", "observable-cookie-count", obs.nts_cookies == Some(model.len()), "client{} observe() reports {:?} cookies, model {}", c.idx, obs.nts_cookies, model.len());
    ev!("client{} req seq={} len={} cookie={} ph={} stash={}", c.idx, c.seq, p.len(), expected.as_ref().map(|x| hex(x)).unwrap_or_default(), placeholders, model.len());
    if let Some(d) = a.timer {
        c.next_timer = Some(now + d.as_nanos() as u64);
    }
    let (from, to, idx, seq, v5) = (c.addr, c.server, c.idx, c.seq, c.v5);
    w.net.send(now, from, to, p.clone(), Meta { kind: Kind::Request { client: idx, seq } });
    // ---- the on-path adversary saw the request ----
    if w.adv_on {
        adversary_on_request(w, ci, &p, now, v5);
    }
}

fn adversary_on_request(w: &mut World, ci: usize, req: &[u8], now: u64, v5: bool) {
    let n = if chance("adv.forge", w.adv_rate) { 1 + choose("adv.forge.n", 3) } else { 0 };
    let (caddr, saddr) = (w.clients[ci].addr, w.clients[ci].server);
    let adv_cipher = ntsclient::cipher(w.adv_alg512, &w.adv_keys.1);
    for _ in 0..n {
        let tags = forge_tags(v5);
        let tag = tags[choose("adv.forge.kind", tags.len() as u64) as usize];
        let mut junk = simkit::sub_rng("adv.junk");
        let now_fixed = ts_to_fixed(w.honest.clock.now().unwrap());
        let bytes = forge(tag, req, adv_cipher.as_ref(), now_fixed, &mut junk);
        let at = now + 200_000 + choose("adv.forge.delay", 6) * 2_000_000;
        fault("adv-forge");
        ev!("adv forges {tag} for client{ci} len={} at={at}", bytes.len());
        w.net.inject(
            at,
            Datagram {
                id: 0,
                from: saddr,
                to: caddr,
                bytes,
                original: None,
                mutation: None,
                duplicate: false,
                sent_ns: now,
                meta: Meta { kind: Kind::Forged { tag } },
            },
        );
    }
    // replay of an earlier genuine response of this session
    if !w.clients[ci].seen.is_empty() && chance("adv.replay", w.adv_rate * 0.6) {
        let k = choose("adv.replay.which", w.clients[ci].seen.len() as u64) as usize;
        let bytes = w.clients[ci].seen[k].clone();
        fault("adv-replay");
        ev!("adv replays earlier response #{k} to client{ci}");
        w.net.inject(
            now + 300_000 + choose("adv.replay.delay", 4) * 3_000_000,
            Datagram {
                id: 0,
                from: saddr,
                to: caddr,
                bytes,
                original: None,
                mutation: None,
                duplicate: false,
                sent_ns: now,
                meta: Meta { kind: Kind::Forged { tag: "replay-earlier-genuine" } },
            },
        );
    }
    // genuine response of another session (other client of the same server)
    let others: Vec<usize> = (0..w.clients.len()).filter(|j| *j != ci && !w.clients[*j].seen.is_empty()).collect();
    if !others.is_empty() && chance("adv.other", w.adv_rate * 0.4) {
        let j = others[choose("adv.other.which", others.len() as u64) as usize];
        let bytes = w.clients[j].seen.last().unwrap().clone();
        fault("adv-other-session");
        ev!("adv injects a genuine response of client{j}'s session to client{ci}");
        w.net.inject(
            now + 400_000,
            Datagram {
                id: 0,
                from: saddr,
                to: caddr,
                bytes,
                original: None,
                mutation: None,
                duplicate: false,
                sent_ns: now,
                meta: Meta { kind: Kind::Forged { tag: "other-session-genuine" } },
            },
        );
    }
    // let the real server re-encrypt under the adversary's own session: same identifiers, own cookie
    if !w.clients[ci].byz && !w.adv_cookies.is_empty() && chance("adv.probe", w.adv_rate * 0.5) {
        let cookie = w.adv_cookies.pop_front().unwrap();
        let rh = Hdr::parse(req).unwrap();
        let mut out = rh.bytes();
        let uid = wire::request_uid(req).unwrap_or_default();
        out.extend(wire::ef(wire::EF_UID, &uid, 16, v5));
        out.extend(wire::ef(wire::EF_COOKIE, &cookie, 16, v5));
        out.extend(wire::ef(wire::EF_PLACEHOLDER, &vec![0; cookie.len()], 16, v5));
        if v5 {
            out.extend(wire::ef(wire::EF_DRAFT_ID, wire::DRAFT, 16, true));
        }
        let c2s = ntsclient::cipher(w.adv_alg512, &w.adv_keys.0);
        let auth = wire::nts_auth_ef(c2s.as_ref(), &out, &[]);
        out.extend(auth);
        fault("adv-own-session-probe");
        ev!("adv asks the real server with client{ci}'s identifiers under its own session");
        w.net.inject(
            now + 100_000,
            Datagram {
                id: 0,
                from: ADV,
                to: saddr,
                bytes: out,
                original: None,
                mutation: None,
                duplicate: false,
                sent_ns: now,
                meta: Meta { kind: Kind::AdvProbe { victim: ci } },
            },
        );
    }
}

fn honest_handle(w: &mut World, d: &Datagram<Meta>, now: u64) {
    if chance("srv.rotate", if w.clean { 0.0 } else { 0.02 }) {
        w.honest.provider.rotate();
        let ks = w.honest.provider.get();
        w.honest.server.update_keyset(ks);
        fault("key-rotate");
        ev!("server rotates its cookie keys");
    }
    ntp_proto::verif::set_mono_ns(now);
    let recv = w.honest.clock.now().unwrap();
    let mut buf = vec![0u8; d.bytes.len().max(48)];
    let len = d.bytes.len();
    let res = {
        let server = &mut w.honest.server;
        let bytes = &d.bytes;
        let ip = ip_of(d.from);
        exec::catch(|| match server.handle(ip, recv, bytes, &mut buf[..len], &mut NoStats) {
            ServerAction::Ignore => None,
            ServerAction::Respond { message } => Some(message.to_vec()),
        })
    };
    let resp = match res {
        Ok(Some(r)) => r,
        Ok(None) => {
            ev!("server ignores datagram from {}", d.from);
            return;
        }
        Err(msg) => {
            simkit::abort(format!("real server panicked (not this world's property): {msg}"));
            return;
        }
    };
    match &d.meta.kind {
        Kind::Request { client, seq } => {
            let c = &w.clients[*client];
            let v5 = wire::version(&resp) == 5;
            let opened = wire::open_auth(&resp, v5, c.sess.s2c_cipher().as_ref());
            let authentic = opened.is_some();
            let cookies: Vec<Vec<u8>> = opened.map(|efs| efs.into_iter().filter(|e| e.ty == wire::EF_COOKIE).map(|e| e.body).collect()).unwrap_or_default();
            let pe = wire::protected_end(&resp, v5).unwrap_or(0);
            let chunk = wire::walk(&resp, v5).into_iter().find(|e| e.ty == wire::EF_REFID_RESP && e.off < pe).map(|e| e.body);
            // binding is the server's authenticated echo of the identifiers it received
            let bound = true;
            ev!("server answers client{client} seq={seq} len={} authentic={authentic} cookies={} stratum={}", resp.len(), cookies.len(), resp[1]);
            if !authentic {
                probe("server-unauthenticated-answer");
            }
            let meta = Meta {
                kind: Kind::Resp {
                    client: *client,
                    seq: *seq,
                    authentic,
                    bound,
                    cookies,
                    chunk,
                    appended: false,
                    tag: "real-server",
                },
            };
            let (from, to) = (d.to, d.from);
            adversary_on_response(w, &meta, &resp, from, to, now);
            w.net.send(now, from, to, resp, meta);
        }
        Kind::AdvProbe { victim } => {
            // the adversary learns fresh cookies for its own session from the answer
            let v5 = wire::version(&resp) == 5;
            let s2c = ntsclient::cipher(w.adv_alg512, &w.adv_keys.1);
            if let Some(efs) = wire::open_auth(&resp, v5, s2c.as_ref()) {
                for e in efs.into_iter().filter(|e| e.ty == wire::EF_COOKIE) {
                    w.adv_cookies.push_back(e.body);
                }
            }
            let victim = *victim;
            let caddr = w.clients[victim].addr;
            ev!("adv forwards the server's answer (its own session) to client{victim}");
            w.net.inject(
                now + 500_000,
                Datagram {
                    id: 0,
                    from: d.to,
                    to: caddr,
                    bytes: resp,
                    original: None,
                    mutation: None,
                    duplicate: false,
                    sent_ns: now,
                    meta: Meta { kind: Kind::Forged { tag: "forge-reencrypt-via-real-server" } },
                },
            );
        }
        _ => {}
    }
}

fn byz_handle(w: &mut World, d: &Datagram<Meta>, now: u64) {
    let Kind::Request { client, seq } = d.meta.kind.clone() else { return };
    if d.bytes.len() < 48 || d.mutation.is_some() {
        return;
    }
    let c = &w.clients[client];
    let v5 = c.v5;
    let s2c = c.sess.s2c_cipher();
    let now_fixed = ts_to_fixed(w.honest.clock.now().unwrap());
    let rh = Hdr::parse(&d.bytes).unwrap();
    // what to deliver
    let weird = w.byz_weird;
    let behaviour = if weird { weighted("byz.kind", &[10, 2, 2, 1, 1, 1, 1, 2, 2, 1]) } else { 0 };
    let mut cookies: Vec<Vec<u8>> = vec![];
    let mut hdr_poll: Option<u8> = None;
    let mut stratum = 2u8;
    let mut refid = *b"BYZ\0";
    let mut mode = 4u8;
    let mut v5flags: Option<u8> = None;
    let mut uid_override = None;
    let mut uid_enc_only = false;
    let mut bound = true;
    let mut tag = "byz-time";
    let mut wrong_origin = false;
    match behaviour {
        0 => {}
        1 => {
            tag = "byz-kiss-rate";
            stratum = 0;
            refid = *b"RATE";
            if v5 {
                hdr_poll = Some((rh.poll as i8).max(0) as u8 + 1 + choose("byz.rate.by", 3) as u8);
            }
            fault("byz-kiss-rate");
        }
        2 => {
            tag = "byz-kiss-deny";
            stratum = 0;
            refid = if chance("byz.rstr", 0.5) { *b"RSTR" } else { *b"DENY" };
            if v5 {
                hdr_poll = Some(127);
            }
            fault("byz-kiss-deny");
        }
        3 => {
            tag = "byz-kiss-ntsn";
            stratum = 0;
            refid = *b"NTSN";
            v5flags = Some(0b100);
            fault("byz-kiss-ntsn");
        }
        4 => {
            tag = "byz-kiss-unknown";
            stratum = 0;
            refid = *b"ABCD";
            fault("byz-kiss-unknown");
        }
        5 => {
            tag = "byz-bad-stratum";
            stratum = 17 + choose("byz.stratum", 200) as u8;
            fault("byz-bad-stratum");
        }
        6 => {
            tag = "byz-bad-mode";
            mode = if v5 { 3 } else { [1u8, 2, 3, 5][choose("byz.mode", 4) as usize] };
            fault("byz-bad-mode");
        }
        7 => {
            tag = "byz-wrong-uid";
            uid_override = Some(vec![0x5A; 32]);
            bound = false;
            fault("byz-wrong-uid");
        }
        8 => {
            tag = "byz-uid-encrypted-only";
            uid_enc_only = true;
        }
        _ => {
            tag = "byz-wrong-origin";
            wrong_origin = true;
            bound = false;
            fault("byz-wrong-origin");
        }
    }
    // cookies: any count, any size (sizes a multiple of 4 for v4 framing)
    let count = if weird { [1usize, 0, 2, 3, 8, 9, 12][weighted("byz.count", &[6, 1, 2, 2, 2, 1, 1])] } else { 1 };
    if count != 1 {
        fault("byz-cookie-count");
    }
    let mut budget = 1024usize.saturating_sub(48 + 36 + 40 + if v5 { 28 + 24 } else { 0 });
    for _ in 0..count {
        let len = if weird {
            let l = [104usize, 8, 12, 40, 200, 400, 700, 880, 0, 4][weighted("byz.len", &[8, 2, 1, 2, 2, 2, 1, 1, 1, 1])];
            if l != 104 {
                fault("byz-cookie-size");
            }
            l
        } else {
            104
        };
        let need = wire::pad4(len) + 4;
        if need > budget && !chance("byz.oversize", 0.1) {
            continue;
        }
        budget = budget.saturating_sub(need);
        cookies.push(w.byz.cookie(len));
    }
    let chunk_req = if v5 { wire::refid_request(&d.bytes) } else { None };
    let chunk: Option<Vec<u8>> = chunk_req.and_then(|(_off, len)| {
        let mut r = simkit::sub_rng("byz.chunk");
        match if weird { weighted("byz.chunkkind", &[5, 1, 1, 1]) } else { 0 } {
            0 => Some((0..len).map(|_| r.next_u64() as u8).collect()),
            1 => {
                fault("byz-bloom-wrong-size");
                Some(vec![0xEE; len as usize + 4])
            }
            2 => {
                fault("byz-bloom-wrong-size");
                Some(vec![0xEE; (len as usize).saturating_sub(4)])
            }
            _ => None,
        }
    });
    let resp = byz_response(
        &d.bytes,
        s2c.as_ref(),
        |h| {
            h.stratum = stratum;
            h.mode = mode;
            if !h.v5 {
                h.word3 = refid;
            } else if let Some(f) = v5flags {
                h.word3[3] = f;
            } else if stratum == 0 {
                h.word3[3] = 0;
            }
            if let Some(p) = hdr_poll {
                h.poll = p;
            }
            if wrong_origin {
                h.f24 ^= 0x0101;
            }
        },
        uid_override,
        uid_enc_only,
        &cookies,
        chunk.as_deref(),
        now_fixed,
        now_fixed,
    );
    let cs = &mut w.clients[client].sess;
    if cookies.iter().any(|c| c.len() < 8) {
        cs.dup_possible = true;
    }
    ev!("byz answers client{client} seq={seq} {tag} len={} cookies={:?} chunk={:?}", resp.len(), cookies.iter().map(|c| c.len()).collect::<Vec<_>>(), chunk.as_ref().map(|c| c.len()));
    let meta = Meta {
        kind: Kind::Resp {
            client,
            seq,
            authentic: true,
            bound,
            cookies,
            chunk,
            appended: false,
            tag,
        },
    };
    let (from, to) = (d.to, d.from);
    adversary_on_response(w, &meta, &resp, from, to, now);
    w.net.send(now, from, to, resp, meta);
}

#[derive(PartialEq, Debug, Clone, Copy)]
enum Mode {
    Strict,
    Weak,
    Genuine,
}

fn deliver_to_client(w: &mut World, ci: usize, d: Datagram<Meta>, _now: u64) {
    let adv_on = w.adv_on;
    let adv_rate = w.adv_rate;
    let c = &mut w.clients[ci];
    if c.src.is_none() {
        return;
    }
    let mut bytes = d.bytes.clone();
    bytes.truncate(1024); // the daemon receives into a 1024-byte buffer
    if bytes.len() < 48 {
        ev!("client{} drops short datagram ({} bytes)", c.idx, bytes.len());
        return;
    }
    let Some(send_ts) = c.last_send else {
        return;
    };
    let v5 = c.v5;
    // ---- ground truth from the DELIVERED bytes (never from the recipe that produced them) ----
    // authentic  = the authenticator opens under THIS session's s2c key (own walker + real AEAD)
    // bound      = the pending request's unique identifier is echoed in an authenticated or encrypted
    //              field (and no such field contradicts it) and its origin timestamp / client cookie is echoed
    // pending    = a request is outstanding and no answer to it has been accepted yet
    let pv5 = wire::version(&bytes) == 5;
    let opened = wire::open_auth(&bytes, pv5, c.sess.s2c_cipher().as_ref());
    let outer = wire::walk(&bytes, pv5);
    let auth_off = outer.iter().find(|e| e.ty == wire::EF_NTS_AUTH).map(|e| e.off);
    let id_echoed = c.last_req.len() >= 48 && if pv5 { bytes[24..32] == c.last_req[24..32] } else { bytes[24..32] == c.last_req[40..48] };
    let uid_ok = match (&opened, auth_off, wire::request_uid(&c.last_req)) {
        (Some(pt), Some(ao), Some(uid)) => {
            let mut uids: Vec<&Vec<u8>> = outer.iter().filter(|e| e.ty == wire::EF_UID && e.off < ao).map(|e| &e.body).collect();
            uids.extend(pt.iter().filter(|e| e.ty == wire::EF_UID).map(|e| &e.body));
            !uids.is_empty() && uids.iter().all(|u| u.len() >= uid.len() && u[..uid.len()] == uid[..])
        }
        _ => false,
    };
    let pending = c.seq > 0 && c.accepted_seq != Some(c.seq);
    let authentic = opened.is_some();
    let eligible = authentic && uid_ok && id_echoed && pending;
    let cookies: Vec<Vec<u8>> = opened.as_ref().map(|pt| pt.iter().filter(|e| e.ty == wire::EF_COOKIE).map(|e| e.body.clone()).collect()).unwrap_or_default();
    let chunk: Option<Vec<u8>> = match auth_off {
        Some(ao) if pv5 => outer.iter().find(|e| e.ty == wire::EF_REFID_RESP && e.off < ao).map(|e| e.body.clone()),
        _ => None,
    };
    let (plain_genuine, tag): (bool, &'static str) = match &d.meta.kind {
        Kind::Resp { client, seq, appended, tag, .. } => (*client == c.idx && *seq == c.seq && !*appended && d.mutation.is_none(), *tag),
        Kind::Forged { tag } => (false, *tag),
        _ => return,
    };
    let mode = if !eligible {
        Mode::Strict
    } else if plain_genuine {
        Mode::Genuine
    } else {
        // authentic and bound by its bytes although it did not come straight from the key holder
        // (damaged outside the authenticated region, fields appended, byte-identical copy, ...)
        Mode::Weak
    };
    let why = if eligible {
        "authentic-and-bound"
    } else if !authentic {
        "not-authentic"
    } else if !(uid_ok && id_echoed) {
        "authentic-but-not-bound-to-pending-request"
    } else {
        "no-request-pending"
    };
    let seq_of = Some(c.seq);
    let recv_ts = c.clock.now().unwrap();
    let before = view(c);
    let (m0, u0) = c.spy.counts();
    let res = {
        let src = c.src.as_mut().unwrap();
        exec::catch(|| collect(src.handle_incoming(&bytes, send_ts, recv_ts)))
    };
    let a = match res {
        Ok(a) => a,
        Err(msg) => {
            simkit::oracle("C07");
            simkit::violation("C07", "source-panicked-on-datagram", format!("prov={tag} mode={mode:?} v5={v5} len={}: {msg}", bytes.len()));
            c.src = None;
            return;
        }
    };
    let after = view(c);
    let (m1, u1) = c.spy.counts();
    let accepted = m1 > m0;
    let mutation = d.mutation.clone();
    ev!(
        "client{} recv prov={tag} {why} mode={mode:?} len={} mut={:?} accepted={accepted} actions={} diff=[{}]",
        c.idx,
        bytes.len(),
        mutation,
        a.n,
        diff(&before, &after)
    );
    // shape of what was actually delivered (own walker): an NTPv5 kiss with the authnak flag and no authenticator
    let shape = if wire::version(&bytes) == 5 && bytes[1] == 0 && bytes[15] & 0b100 != 0 && wire::protected_end(&bytes, true).is_none() {
        "v5-unauthenticated-authnak-kiss"
    } else {
        "other"
    };
    match mode {
        Mode::Strict => {
            check!(
                "C07",
                "unauthenticated-datagram-has-no-effect",
                before == after && a.n == 0 && m0 == m1 && u0 == u1,
                "prov={tag} why={why} shape={shape} v5={v5} mutation={mutation:?}: changed [{}] actions(reset={} demobilize={} n={}) measurements+{} usable-calls+{}",
                diff(&before, &after),
                a.reset,
                a.demobilize,
                a.n,
                m1 - m0,
                u1 - u0
            );
            check_bloom_change(&before.bloom, &after.bloom, None, "unauthenticated datagram");
        }
        Mode::Genuine | Mode::Weak => {
            if accepted {
                c.accepted_seq = seq_of;
                for ck in &cookies {
                    c.sess.model_store(ck.clone());
                }
                // new cookies ⊆ the encrypted part of this very response
                let newly: Vec<&Vec<u8>> = after.stash.iter().filter(|x| !before.stash.contains(x)).collect();
                check!(
                    "C07",
                    "new-cookies-only-from-encrypted-part",
                    newly.iter().all(|x| cookies.contains(x)),
                    "prov={tag} mode={mode:?}: stored cookies {:?} are not all among the {} encrypted ones",
                    newly.iter().map(|x| hex(x)).collect::<Vec<_>>(),
                    cookies.len()
                );
                let model: Vec<Vec<u8>> = c.sess.model.iter().cloned().collect();
                check!(
                    "C13",
                    "stash-matches-fifo-of-eight-newest",
                    after.stash == model && after.stash.len() <= 8,
                    "client{} after accepting {} cookies (prov={tag}): implementation holds {:?}, model {:?}",
                    c.idx,
                    cookies.len(),
                    after.stash.iter().map(|x| hex(x)).collect::<Vec<_>>(),
                    model.iter().map(|x| hex(x)).collect::<Vec<_>>()
                );
                {
                    // the header is authenticated: the measurement must carry exactly its timestamps
                    let oh = Hdr::parse(&bytes).unwrap();
                    let mo = c.spy.measurement(m0);
                    let mi = c.spy.measurement(m0 + 1);
                    check!(
                        "C07",
                        "damage-outside-authenticated-region-keeps-original-effect",
                        ts_to_fixed(mo.receiver_ts) == oh.recv && ts_to_fixed(mi.sender_ts) == oh.xmit,
                        "prov={tag} mutation={mutation:?}: measurement timestamps differ from the authenticated original's"
                    );
                    if mode == Mode::Weak {
                        probe("weak-clause-accepted");
                    }
                }
                check_bloom_change(&before.bloom, &after.bloom, chunk.as_deref(), "accepted response");
                probe("genuine-response-accepted");
            } else {
                check_bloom_change(&before.bloom, &after.bloom, None, "response that was not accepted");
                if mode == Mode::Weak {
                    simkit::oracle("C07");
                }
                check!(
                    "C07",
                    "cookies-stored-only-with-accepted-response",
                    after.stash == before.stash,
                    "prov={tag} mode={mode:?}: stash changed without an accepted time response"
                );
            }
        }
    }
    if a.demobilize || a.reset {
        probe(if a.demobilize { "source-demobilize" } else { "source-reset" });
        ev!("client{} stops ({})", c.idx, if a.demobilize { "Demobilize" } else { "Reset" });
        c.src = None;
    }
    // the adversary saw a genuine authentic response on the wire: keep it for later, maybe append junk
    if let Kind::Resp { authentic: true, bound: true, appended: false, .. } = &d.meta.kind {
        if d.mutation.is_none() && c.seen.len() < 8 {
            c.seen.push(d.bytes.clone());
        }
    }
    let _ = (adv_on, adv_rate);
}

/// On-path: when a genuine authentic response passes, the adversary may race a copy with
/// unauthenticated fields appended after the authenticator, or with a spliced header.
fn adversary_on_response(w: &mut World, meta: &Meta, resp: &[u8], from: u32, to: u32, now: u64) {
    if !w.adv_on {
        return;
    }
    let Kind::Resp { authentic: true, bound: true, appended: false, client, seq, cookies, chunk, tag, .. } = &meta.kind else {
        return;
    };
    struct D<'a> {
        bytes: &'a [u8],
        from: u32,
        to: u32,
    }
    let d = D { bytes: resp, from, to };
    // injected datagrams overtake the genuine one (which still has its network latency ahead)
    let now = now + 1_000;
    let v5 = wire::version(d.bytes) == 5;
    if chance("adv.append", w.adv_rate * 0.5) {
        let mut bytes = d.bytes.to_vec();
        let mut junk = simkit::sub_rng("adv.append.junk");
        let junk_cookie: Vec<u8> = (0..104).map(|_| junk.next_u64() as u8).collect();
        match choose("adv.append.kind", 3) {
            0 => bytes.extend(wire::ef(wire::EF_COOKIE, &junk_cookie, 28, v5)),
            1 => bytes.extend(wire::ef(wire::EF_UID, &[0x77; 32], 28, v5)),
            _ => {
                if v5 {
                    bytes.extend(wire::ef(wire::EF_REFID_RESP, &[0xFF; 16], 4, true));
                }
                bytes.extend(wire::ef(wire::EF_COOKIE, &junk_cookie, 28, v5));
            }
        }
        if bytes.len() <= 1024 {
            fault("adv-append-after-authenticator");
            ev!("adv races a copy of the genuine answer with unauthenticated fields appended (client{client})");
            // arrives just before the untouched original
            w.net.inject(
                now,
                Datagram {
                    id: 0,
                    from: d.from,
                    to: d.to,
                    bytes,
                    original: Some(d.bytes.to_vec()),
                    mutation: None,
                    duplicate: false,
                    sent_ns: now,
                    meta: Meta {
                        kind: Kind::Resp {
                            client: *client,
                            seq: *seq,
                            authentic: true,
                            bound: true,
                            cookies: cookies.clone(),
                            chunk: chunk.clone(),
                            appended: true,
                            tag,
                        },
                    },
                },
            );
        }
    } else if chance("adv.splice", w.adv_rate * 0.5) {
        let mut bytes = d.bytes.to_vec();
        let tagk: &'static str = match choose("adv.splice.kind", 4) {
            0 => {
                bytes[1] = 0; // stratum -> kiss
                if v5 {
                    bytes[2] = 127;
                    bytes[15] |= 0b100;
                } else {
                    bytes[12..16].copy_from_slice(b"DENY");
                }
                "splice-header-to-kiss"
            }
            1 => {
                bytes[40] ^= 0x40; // transmit timestamp
                "splice-transmit-timestamp"
            }
            2 => {
                if v5 {
                    bytes[2] = bytes[2].wrapping_add(3);
                } else {
                    bytes[1] = bytes[1] % 15 + 1;
                }
                "splice-poll-or-stratum"
            }
            _ => {
                // swap the authenticated uid field for a copy (same bytes) but flip the ciphertext tail
                let n = bytes.len();
                bytes[n - 1] ^= 1;
                "splice-ciphertext"
            }
        };
        if bytes == d.bytes {
            return;
        }
        fault("adv-splice");
        ev!("adv races {tagk} (client{client})");
        w.net.inject(
            now,
            Datagram {
                id: 0,
                from: d.from,
                to: d.to,
                bytes,
                original: None,
                mutation: None,
                duplicate: false,
                sent_ns: now,
                meta: Meta { kind: Kind::Forged { tag: tagk } },
            },
        );
    }
}

pub fn run_nts() {
    simntp::reset_hooks();
    let focus = simkit::focus();
    let clean = !chance("cfg.faulty", 0.75);
    let nclients = 1 + weighted("cfg.nclients", &[5, 3, 1]);
    let adv_on = !clean && (focus == "C07" || chance("cfg.adv", 0.6));
    let adv_rate = [0.3, 0.1, 0.6, 1.0][choose("cfg.adv.rate", 4) as usize];
    let byz_weird = !clean;
    let netcfg = if clean { NetCfg::clean() } else { NetCfg::swarm() };
    let polls = 8 + choose("cfg.polls", 40);
    ev!("cfg nts clean={clean} nclients={nclients} adv={adv_on} rate={adv_rate} polls={polls}");

    exec::block_on(async move {
        let epoch: u64 = 0xE000_0000u64 << 32;
        let sclock = SimClock::new("server", epoch, 0.0, 0.0);
        let mut sync = SynchronizationConfig::default();
        sync.local_stratum = 1;
        let smgr = NtpManager::new(sync, Arc::from(vec![ip_of(1)]));
        smgr.update_used_sources(std::iter::empty());
        let provider = KeySetProvider::new(1 + choose("cfg.keyhistory", 3) as usize);
        let scfg = ServerConfig {
            denylist: FilterList { filter: vec![], action: FilterAction::Ignore },
            allowlist: FilterList { filter: vec!["0.0.0.0/0".parse().unwrap(), "::/0".parse().unwrap()], action: FilterAction::Ignore },
            rate_limiting_cache_size: 0,
            rate_limiting_cutoff: std::time::Duration::from_secs(0),
            require_nts: if chance("cfg.requirents", 0.3) { Some(FilterAction::Deny) } else { None },
            accepted_versions: vec![NtpVersion::V3, NtpVersion::V4, NtpVersion::V5],
        };
        let server = smgr.new_server(scfg, sclock.clone(), provider.get());
        let honest = Honest { addr: 1, server, provider, clock: sclock.clone(), mgr: smgr };

        let cmgr = NtpManager::new(SynchronizationConfig::default(), Arc::from(vec![ip_of(100)]));
        let mut w = World {
            net: SimNet::new(netcfg),
            clients: vec![],
            honest,
            byz: ByzState { counter: 0 },
            mgr: cmgr,
            adv_on,
            adv_rate,
            adv_keys: (vec![], vec![]),
            adv_cookies: VecDeque::new(),
            adv_alg512: false,
            byz_weird,
            clean,
            polls_left: polls,
        };
        w.adv_alg512 = chance("cfg.adv.512", 0.3);
        w.adv_keys = fresh_keys(w.adv_alg512, "cfg.adv.keys");
        if adv_on {
            let ks = w.honest.provider.get();
            for _ in 0..6 {
                w.adv_cookies.push_back(ntsclient::mint_cookie(&ks, w.adv_alg512, &w.adv_keys.0, &w.adv_keys.1));
            }
        }
        for i in 0..nclients {
            let byz = chance("cfg.client.byz", 0.4);
            if byz {
                fault("byzantine-authenticated-server");
            }
            let v5 = chance("cfg.client.v5", 0.5);
            let alg512 = chance("cfg.client.512", 0.3);
            let (c2s, s2c) = fresh_keys(alg512, "cfg.client.keys");
            let lim = [(0u8, 6u8), (2, 8), (4, 10), (1, 1)][choose("cfg.client.limits", 4) as usize];
            let limits = PollIntervalLimits { min: PollInterval::from_byte(lim.0), max: PollInterval::from_byte(lim.1) };
            let addr = 100 + i as u32;
            let c = Client {
                idx: i,
                addr,
                server: if byz { 2 } else { 1 },
                byz,
                v5,
                src: None,
                spy: Spy::new(lim.0 + choose("cfg.client.desired", 2) as u8),
                clock: SimClock::new("client", epoch.wrapping_add(simntp::secs_to_fixed(0.01 * i as f64) as u64), 0.0, 0.0),
                next_timer: Some(choose("cfg.client.start", 1000) * 1_000_000),
                last_send: None,
                seq: 0,
                last_req: vec![],
                accepted_seq: None,
                sess: Sess {
                    alg512,
                    c2s,
                    s2c,
                    legit: BTreeSet::new(),
                    sent: BTreeSet::new(),
                    model: VecDeque::new(),
                    dup_possible: false,
                },
                respawns: 0,
                limits,
                seen: vec![],
            };
            w.clients.push(c);
            respawn(&mut w, i);
            ev!("cfg client{i} v5={v5} byz={byz} alg512={alg512} limits={lim:?}");
        }

        let horizon: u64 = 4_000_000_000_000;
        loop {
            if simkit::out_of_budget() || w.polls_left == 0 {
                break;
            }
            let tn = w.net.next_time();
            let tt = w.clients.iter().filter(|c| c.src.is_some()).filter_map(|c| c.next_timer).min();
            let t = match (tn, tt) {
                (Some(a), Some(b)) => a.min(b),
                (Some(a), None) => a,
                (None, Some(b)) => b,
                (None, None) => break,
            };
            if t > horizon {
                break;
            }
            advance_to(t).await;
            let now = simkit::now_ns().max(t);
            // datagrams first (they were in flight before the timer fired), then timers
            while let Some((_, d)) = w.net.pop_due(now) {
                if d.to == 1 {
                    honest_handle(&mut w, &d, now);
                } else if d.to == 2 {
                    byz_handle(&mut w, &d, now);
                } else if d.to == ADV {
                    // unused: answers to the adversary's own probes are forwarded in honest_handle
                } else if let Some(ci) = w.clients.iter().position(|c| c.addr == d.to) {
                    deliver_to_client(&mut w, ci, d, now);
                }
            }
            for ci in 0..w.clients.len() {
                if w.clients[ci].src.is_some() && w.clients[ci].next_timer.map(|x| x <= now).unwrap_or(false) {
                    on_timer(&mut w, ci, now);
                }
                if w.clients[ci].src.is_none() && w.clients[ci].respawns < 2 && !simkit::out_of_budget() {
                    w.clients[ci].respawns += 1;
                    respawn(&mut w, ci);
                    w.clients[ci].next_timer = Some(now + 1_000_000_000);
                }
            }
        }
        let _ = (&w.honest.mgr, &w.mgr, w.honest.addr);
    });
    ntp_proto::verif::clear();
}

/// (Re-)establish the NTS session of a client as a key exchange would: fresh keys,
/// cookies minted under the server's current key set (or by the byzantine server).
fn respawn(w: &mut World, ci: usize) {
    let alg512 = w.clients[ci].sess.alg512;
    let (c2s, s2c) = fresh_keys(alg512, "respawn.keys");
    w.clients[ci].sess.c2s = c2s;
    w.clients[ci].sess.s2c = s2c;
    w.clients[ci].sess.dup_possible = false;
    let n = if w.clean { 8 } else { [8usize, 1, 3, 2][weighted("respawn.ncookies", &[6, 2, 1, 1])] };
    let mut cookies = vec![];
    for _ in 0..n {
        if w.clients[ci].byz {
            cookies.push(w.byz.cookie(104));
        } else {
            let ks = w.honest.provider.get();
            cookies.push(ntsclient::mint_cookie(&ks, alg512, &w.clients[ci].sess.c2s, &w.clients[ci].sess.s2c));
        }
    }
    let mut cl = w.clients.remove(ci);
    new_client_source(&w.mgr, &mut cl, &cookies);
    w.clients.insert(ci, cl);
    ev!("client{ci} session established with {n} cookies");
}

// ---------------------------------------------------------------------------------------------
// C14 enumeration: cookie length 0..=1024 x stash fill 1..=8 x {v4, v5}
// ---------------------------------------------------------------------------------------------

pub const C14_BASE: u64 = 1025 * 8 * 2;
/// second enumerated family: {v4,v5} x 6 cookie-length classes x initial fill 1..=8 x surplus 1..=8 x 4 answer patterns
pub const C14_MULTI: u64 = 2 * 6 * 8 * 8 * 4;
const C14_ROUNDS: usize = 20;

pub fn run_c14_case() {
    simntp::reset_hooks();
    let idx = simkit::run_index();
    exec::block_on(async move {
        if idx < C14_BASE {
            let len = (idx % 1025) as usize;
            let fill = 1 + ((idx / 1025) % 8) as usize;
            let v5 = (idx / (1025 * 8)) % 2 == 1;
            c14_uniform(len, fill, v5).await;
        } else if idx < C14_BASE + C14_MULTI {
            c14_multiround(idx - C14_BASE).await;
        } else {
            c14_mixed().await;
        }
    });
    ntp_proto::verif::clear();
}

struct Rig {
    src: NtpSource<Spy>,
    spy: Spy,
    clock: SimClock,
    v5: bool,
    s2c: Box<dyn Cipher>,
    t: u64,
}

fn rig(v5: bool, nts_cookies: Option<&[Vec<u8>]>, pv: Option<ProtocolVersion>) -> Rig {
    let mgr = NtpManager::new(SynchronizationConfig::default(), Arc::from(vec![ip_of(100)]));
    let spy = Spy::new(4);
    let (c2s, s2c) = (vec![7u8; 32], vec![9u8; 32]);
    let nts = nts_cookies.map(|c| ntsclient::nts_data(false, &c2s, &s2c, c));
    let pv = pv.unwrap_or(if v5 { ProtocolVersion::V5 } else { ProtocolVersion::V4 });
    let (src, _a) = mgr.new_source(SocketAddr::new(ip_of(1), 123), SourceConfig::default(), pv, spy.clone(), nts, ClockId::new());
    Rig {
        src,
        spy,
        clock: SimClock::new("client", 0xE000_0000u64 << 32, 0.0, 0.0),
        v5,
        s2c: ntsclient::cipher(false, &s2c),
        t: 0,
    }
}

/// One `handle_timer` under the C14 oracle; returns the request if one was built.
fn c14_timer(r: &mut Rig, ctx: &str) -> Option<Vec<u8>> {
    let src = &mut r.src;
    let res = exec::catch(|| collect(src.handle_timer()));
    check_c14(&res, ctx);
    match res {
        Ok(a) => {
            ev!("poll [{ctx}] -> send={:?} reset={}", a.send.first().map(|p| p.len()), a.reset);
            a.send.first().cloned()
        }
        Err(_) => None,
    }
}

async fn c14_uniform(len: usize, fill: usize, v5: bool) {
    // how many cookies of this length one authenticated <=1024-byte response can deliver
    let per = if v5 { len + 4 } else { wire::pad4(len) + 4 };
    let overhead = 48 + 36 + 8 + 16 + 16 + if v5 { 28 } else { 0 };
    let fit = if !v5 && len % 4 != 0 { 0 } else { (1024usize.saturating_sub(overhead)) / per.max(4) };
    let k = fit.min(fill);
    let mk = |i: usize| -> Vec<u8> {
        let mut c = vec![0xA0u8 + i as u8; len];
        if len > 0 {
            c[0] = i as u8;
        }
        c
    };
    // a full stash of key-exchange cookies leaves no room for an ordinary first cookie:
    // then the first poll itself is the fill=8 case and 7 remain afterwards
    let ke_full = fill - k == 8;
    let mut initial = if ke_full { vec![] } else { vec![vec![0x11u8; 104]] };
    for i in 0..(fill - k) {
        initial.push(mk(i));
    }
    let delivered: Vec<Vec<u8>> = (fill - k..fill).map(|i| mk(i)).collect();
    ev!("c14 case len={len} fill={fill} v5={v5} via-response={k} via-ke={}", fill - k);
    let mut r = rig(v5, Some(initial.as_slice()), None);
    let ctx = format!("cookie_len={len} fill={fill} v5={v5}");
    // 1. first poll (uses the ordinary key-exchange cookie)
    let Some(req) = c14_timer(&mut r, &format!("{ctx} step=first-poll")) else {
        return;
    };
    let send_ts = r.clock.now().unwrap();
    r.t += 50_000_000;
    advance_to(r.t).await;
    // 2. authenticated response delivering k cookies of the enumerated length
    let now_fixed = ts_to_fixed(r.clock.now().unwrap());
    let resp = byz_response(&req, r.s2c.as_ref(), |_| {}, None, false, &delivered, if v5 { Some(&[0u8; 16]) } else { None }, now_fixed, now_fixed);
    let recv_ts = r.clock.now().unwrap();
    let (m0, _) = r.spy.counts();
    let src = &mut r.src;
    let res = exec::catch(|| collect(src.handle_incoming(&resp, send_ts, recv_ts)));
    let (m1, _) = r.spy.counts();
    if let Err(msg) = &res {
        simkit::violation("C14", "poll-construction-panicked", format!("{ctx}: handle_incoming of the cookie-delivering response panicked: {msg}"));
        return;
    }
    if resp.len() <= 1024 && m1 == m0 {
        simkit::abort(format!("{ctx}: harness-built authenticated response ({} bytes) was not accepted", resp.len()));
        return;
    }
    let held = r.src.verif_x_view().stash;
    let expect_held = if ke_full { 7 } else { fill };
    if held.len() != expect_held || held.iter().any(|c| c.len() != len) {
        simkit::abort(format!("{ctx}: stash holds {:?} instead of {fill} x {len}", held.iter().map(|c| c.len()).collect::<Vec<_>>()));
        return;
    }
    // 3. polls with the enumerated stash, draining it (fill, fill-1, ... cookies held)
    for step in 0..fill + 1 {
        r.t += 16_000_000_000;
        advance_to(r.t).await;
        let h = r.src.verif_x_view().stash.len();
        let sctx = format!("{ctx} step=poll-with-{h}-held");
        if c14_timer(&mut r, &sctx).is_none() {
            break;
        }
        let _ = step;
    }
}

/// Multi-round histories against the key-holding server: the stash state is carried across
/// >= 12 poll/answer rounds in which the server returns more cookies than asked (surplus
/// 1..=8, overfilling the ring), exactly as many, fewer, none, or the answer is lost, so
/// every read/write position of the ring meets every overfill amount. The C14 oracle
/// applies at every `handle_timer`; C13's FIFO-of-eight-newest model runs alongside.
async fn c14_multiround(case: u64) {
    let pattern = (case % 4) as usize;
    let surplus = 1 + ((case / 4) % 8) as usize;
    let fill = 1 + ((case / 32) % 8) as usize;
    let class = ((case / 256) % 6) as usize;
    let v5 = (case / 1536) % 2 == 1;
    let len = [8usize, 16, 40, 64, 104, 168][class];
    ev!("c14 multiround v5={v5} cookie_len={len} fill={fill} surplus={surplus} pattern={pattern}");
    let mut counter = 0u64;
    let mut mk = |n: usize| -> Vec<Vec<u8>> {
        (0..n)
            .map(|_| {
                counter += 1;
                let mut c = counter.to_be_bytes().to_vec();
                c.resize(len, 0xC5);
                c
            })
            .collect()
    };
    let initial = mk(fill);
    let mut model: VecDeque<Vec<u8>> = initial.iter().cloned().collect();
    let mut r = rig(v5, Some(initial.as_slice()), None);
    // deterministic per-case generator for pattern 3
    let mut lcg = case.wrapping_mul(0x9E37_79B9_7F4A_7C15).wrapping_add(0x1234_5678_9ABC_DEF1);
    for round in 0..C14_ROUNDS {
        r.t += 1_000_000_000;
        advance_to(r.t).await;
        let held = r.src.verif_x_view().stash.len();
        let ctx = format!("multiround v5={v5} cookie_len={len} fill={fill} surplus={surplus} pattern={pattern} round={round} held={held}");
        let Some(req) = c14_timer(&mut r, &ctx) else {
            break;
        };
        let used = model.pop_front();
        let efs = wire::walk(&req, v5);
        let sent = efs.iter().find(|e| e.ty == wire::EF_COOKIE).map(|e| e.body.clone());
        check!(
            "C13",
            "oldest-cookie-first",
            matches!((&used, &sent), (Some(u), Some(b)) if cookie_on_wire_matches(u, b)),
            "{ctx}: request carries {:?}, model's oldest is {:?}",
            sent.as_ref().map(|x| hex(x)),
            used.as_ref().map(|x| hex(x))
        );
        let asked = 1 + efs.iter().filter(|e| e.ty == wire::EF_PLACEHOLDER).count();
        // what the server does this round
        #[derive(Debug)]
        enum Act {
            Lost,
            Give(usize),
        }
        let act = match pattern {
            0 => Act::Give(asked + surplus),
            1 => match (round + fill) % 6 {
                0 => Act::Give(asked),
                1 | 5 => Act::Give(asked + surplus),
                2 => Act::Lost,
                3 => Act::Give(0),
                _ => Act::Give(asked.saturating_sub(1)),
            },
            2 => {
                if round % (1 + fill % 3) == 0 {
                    Act::Give(asked + surplus)
                } else {
                    Act::Give(asked)
                }
            }
            _ => {
                lcg = lcg.wrapping_mul(6364136223846793005).wrapping_add(1442695040888963407);
                match (lcg >> 33) % 8 {
                    0 => Act::Lost,
                    1 => Act::Give(0),
                    2 => Act::Give(asked.saturating_sub(1)),
                    3 | 4 => Act::Give(asked),
                    5 => Act::Give(asked + 1 + ((lcg >> 40) % 8) as usize),
                    _ => Act::Give(asked + surplus),
                }
            }
        };
        let Act::Give(mut n) = act else {
            ev!("round {round}: answer lost");
            continue;
        };
        // what fits a 1024-byte datagram
        let per = if v5 { len + 4 } else { wire::pad4(len) + 4 };
        let room = (1024usize - (48 + 36 + 40 + if v5 { 28 + 24 } else { 0 })) / per;
        n = n.min(room);
        let send_ts = r.clock.now().unwrap();
        r.t += 20_000_000;
        advance_to(r.t).await;
        let now_fixed = ts_to_fixed(r.clock.now().unwrap());
        let del = mk(n);
        let resp = byz_response(&req, r.s2c.as_ref(), |_| {}, None, false, &del, if v5 { Some(&[0u8; 16]) } else { None }, now_fixed, now_fixed);
        let recv_ts = r.clock.now().unwrap();
        let (m0, _) = r.spy.counts();
        let src = &mut r.src;
        let res = exec::catch(|| collect(src.handle_incoming(&resp, send_ts, recv_ts)));
        let (m1, _) = r.spy.counts();
        if let Err(msg) = &res {
            simkit::oracle("C14");
            simkit::violation("C14", "poll-construction-panicked", format!("{ctx}: handle_incoming of an authenticated response with {n} cookies (asked {asked}) panicked: {msg}"));
            return;
        }
        if m1 == m0 {
            simkit::abort(format!("{ctx}: harness-built authenticated response ({} bytes, {n} cookies) was not accepted", resp.len()));
            return;
        }
        for c in del {
            model.push_back(c);
            if model.len() > 8 {
                model.pop_front();
            }
        }
        let have = r.src.verif_x_view().stash;
        let want: Vec<Vec<u8>> = model.iter().cloned().collect();
        check!(
            "C13",
            "stash-matches-fifo-of-eight-newest",
            have == want,
            "{ctx}: after {n} cookies (asked {asked}) the stash holds {:?}, model {:?}",
            have.iter().map(|x| hex(x)).collect::<Vec<_>>(),
            want.iter().map(|x| hex(x)).collect::<Vec<_>>()
        );
        ev!("round {round}: asked={asked} given={n} held={}", have.len());
        if n > asked {
            probe("stash-overfilled");
        }
    }
}

async fn c14_mixed() {
    // thorough tier: mixed-length stashes and non-NTS variants under random histories
    let variant = choose("c14.variant", 5);
    let lens = [0usize, 1, 3, 4, 16, 90, 100, 104, 120, 180, 240, 361, 362, 363, 500, 723, 724, 725, 900, 1024];
    let ctx = format!("mixed variant={variant}");
    match variant {
        0 | 1 => {
            let v5 = variant == 1;
            let n = 1 + choose("c14.n", 8) as usize;
            let cookies: Vec<Vec<u8>> = (0..n).map(|i| vec![i as u8; lens[choose("c14.len", lens.len() as u64) as usize]]).collect();
            ev!("c14 mixed v5={v5} lens={:?}", cookies.iter().map(|c| c.len()).collect::<Vec<_>>());
            let mut r = rig(v5, Some(cookies.as_slice()), None);
            for _ in 0..n + 2 {
                r.t += 1_000_000_000 * (1 + choose("c14.gap", 40));
                advance_to(r.t).await;
                let sctx = format!("{ctx} lens={:?}", r.src.verif_x_view().stash.iter().map(|c| c.len()).collect::<Vec<_>>());
                let Some(req) = c14_timer(&mut r, &sctx) else {
                    break;
                };
                if chance("c14.answer", 0.6) {
                    let send_ts = r.clock.now().unwrap();
                    let now_fixed = ts_to_fixed(send_ts);
                    let k = choose("c14.k", 4) as usize;
                    let mut budget = 800usize;
                    let mut del = vec![];
                    for j in 0..k {
                        let mut l = lens[choose("c14.dlen", lens.len() as u64) as usize];
                        if !v5 {
                            l = wire::pad4(l);
                        }
                        if l + 4 <= budget {
                            budget -= l + 4;
                            del.push(vec![0x80 + j as u8; l]);
                        }
                    }
                    let resp = byz_response(&req, r.s2c.as_ref(), |_| {}, None, false, &del, None, now_fixed, now_fixed);
                    let src = &mut r.src;
                    if let Err(msg) = exec::catch(|| collect(src.handle_incoming(&resp, send_ts, send_ts))) {
                        simkit::violation("C14", "poll-construction-panicked", format!("{ctx}: handle_incoming panicked: {msg}"));
                        return;
                    }
                }
            }
        }
        _ => {
            // non-NTS: v4, upgrade, v5 with random answers (kiss codes, upgrades) in between
            let pv = [ProtocolVersion::V4, ProtocolVersion::v4_upgrading_to_v5_with_default_tries(), ProtocolVersion::V5][(variant - 2) as usize];
            let mut r = rig(matches!(pv, ProtocolVersion::V5), None, Some(pv));
            for _ in 0..12 {
                r.t += 1_000_000_000 * (1 + choose("c14.gap", 40));
                advance_to(r.t).await;
                let sctx = format!("{ctx} plain {pv:?}");
                let Some(req) = c14_timer(&mut r, &sctx) else { break };
                if chance("c14.answer", 0.7) {
                    let rh = Hdr::parse(&req).unwrap();
                    let send_ts = r.clock.now().unwrap();
                    let f = ts_to_fixed(send_ts);
                    let mut h = Hdr::answer_to(&rh, 2, *b"GOOD", f, f);
                    match choose("c14.ans", 5) {
                        1 => {
                            h.stratum = 0;
                            h.word3 = if rh.v5 { [0; 4] } else { *b"RATE" };
                            h.poll = rh.poll.wrapping_add(1);
                        }
                        2 => {
                            h.stratum = 0;
                            h.word3 = if rh.v5 { [0; 4] } else { *b"DENY" };
                            if rh.v5 {
                                h.poll = 127;
                            }
                        }
                        3 if !rh.v5 => h.f16 = wire::be64(b"NTP5DRFT"),
                        4 if rh.v5 => h.poll = 127,
                        _ => {}
                    }
                    let mut out = h.bytes();
                    if rh.v5 {
                        out.extend(wire::ef(wire::EF_DRAFT_ID, wire::DRAFT, 4, true));
                    }
                    let src = &mut r.src;
                    if let Err(msg) = exec::catch(|| collect(src.handle_incoming(&out, send_ts, send_ts))) {
                        // receiving is not "building a poll": visible in the evidence, decided by the plain-source world
                        probe("plain-source-panicked-on-datagram");
                        ev!("plain source panicked in handle_incoming: {msg}");
                        return;
                    }
                }
            }
        }
    }
}

#[allow(dead_code)]
fn _unused(_: BTreeMap<u8, u8>) {}
