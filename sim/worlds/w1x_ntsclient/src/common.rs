//! Pieces shared by the NTS-client world and the daemon (stratum / Bloom) world.

use std::net::{IpAddr, Ipv4Addr};
use std::sync::{Arc, Mutex};

use ntp_proto::{
    Measurement, NtpSourceAction, NtpSourceActionIterator, ObservableSourceTimedata, PollInterval, ServerReason,
    ServerResponse, ServerStatHandler, SourceController,
};
use simkit::exec;

#[derive(Default, Debug)]
pub struct SpyLog {
    pub measurements: Vec<Measurement>,
    pub usable: Vec<bool>,
    /// what the controller had last been told about usability when each measurement arrived
    pub told_at: Vec<Option<bool>>,
    pub desired_poll: u8,
}

/// Recording source controller: the seam between `NtpSource` and the clock algorithm.
#[derive(Clone, Debug)]
pub struct Spy(pub Arc<Mutex<SpyLog>>);

impl Spy {
    pub fn new(desired_poll: u8) -> Spy {
        Spy(Arc::new(Mutex::new(SpyLog {
            measurements: vec![],
            usable: vec![],
            told_at: vec![],
            desired_poll,
        })))
    }
    pub fn counts(&self) -> (usize, usize) {
        let l = self.0.lock().unwrap();
        (l.measurements.len(), l.usable.len())
    }
    pub fn last_usable(&self) -> Option<bool> {
        self.0.lock().unwrap().usable.last().copied()
    }
    pub fn told_at(&self, i: usize) -> Option<bool> {
        self.0.lock().unwrap().told_at[i]
    }
    pub fn measurement(&self, i: usize) -> Measurement {
        self.0.lock().unwrap().measurements[i]
    }
    pub fn set_desired_poll(&self, p: u8) {
        self.0.lock().unwrap().desired_poll = p;
    }
}

impl SourceController for Spy {
    fn handle_measurement(&mut self, measurement: Measurement) {
        let mut l = self.0.lock().unwrap();
        let told = l.usable.last().copied();
        l.told_at.push(told);
        l.measurements.push(measurement);
    }
    fn set_usable(&mut self, usable: bool) {
        self.0.lock().unwrap().usable.push(usable);
    }
    fn desired_poll_interval(&self) -> PollInterval {
        PollInterval::from_byte(self.0.lock().unwrap().desired_poll)
    }
    fn observe(&self) -> ObservableSourceTimedata {
        ObservableSourceTimedata::default()
    }
}

pub struct NoStats;
impl ServerStatHandler for NoStats {
    fn register(&mut self, _version: u8, _nts: bool, _reason: ServerReason, _response: ServerResponse) {}
}

pub fn ip_of(addr: u32) -> IpAddr {
    IpAddr::V4(Ipv4Addr::new(10, 0, (addr >> 8) as u8, addr as u8))
}

pub fn refid_of(ip: IpAddr) -> [u8; 4] {
    match ip {
        IpAddr::V4(a) => a.octets(),
        // not used by this world
        IpAddr::V6(_) => [0; 4],
    }
}

/// Advance the paused tokio clock (and simkit's notion of now) to `t_ns` since run start.
pub async fn advance_to(t_ns: u64) {
    let target = exec::start_instant() + std::time::Duration::from_nanos(t_ns);
    if target > tokio::time::Instant::now() {
        tokio::time::sleep_until(target).await;
    }
    simkit::set_now_ns(exec::elapsed_ns());
}

#[derive(Debug, Default)]
pub struct Acts {
    pub send: Vec<Vec<u8>>,
    pub timer: Option<std::time::Duration>,
    pub reset: bool,
    pub demobilize: bool,
    pub n: usize,
}

pub fn collect(it: NtpSourceActionIterator) -> Acts {
    let mut a = Acts::default();
    for x in it {
        a.n += 1;
        match x {
            NtpSourceAction::Send(p) => a.send.push(p),
            NtpSourceAction::SetTimer(d) => a.timer = Some(d),
            NtpSourceAction::Reset => a.reset = true,
            NtpSourceAction::Demobilize => a.demobilize = true,
        }
    }
    a
}

pub fn hex(b: &[u8]) -> String {
    let mut s = String::new();
    for x in b.iter().take(8) {
        s.push_str(&format!("{x:02x}"));
    }
    if b.len() > 8 {
        s.push_str("..");
    }
    s
}

/// C14 oracle, applied to every `handle_timer` call of every world: no panic; the
/// outcome is a request that fits the daemon's 1024-byte send buffer, or a reset
/// (or, for sources that saw an unauthenticated DENY/RSTR, a demobilisation).
pub fn check_c14(res: &Result<Acts, String>, ctx: &str) {
    match res {
        Err(msg) => {
            simkit::oracle("C14");
            simkit::violation("C14", "poll-construction-panicked", format!("{ctx}: handle_timer panicked: {msg}"));
        }
        Ok(a) => {
            let ok_send = a.send.len() == 1 && a.send[0].len() <= 1024 && a.send[0].len() >= 48 && !a.reset && !a.demobilize;
            let ok_stop = a.send.is_empty() && (a.reset ^ a.demobilize);
            simkit::check!(
                "C14",
                "poll-is-send-le-1024-or-reset",
                ok_send || ok_stop,
                "{ctx}: actions send_lens={:?} reset={} demobilize={}",
                a.send.iter().map(|p| p.len()).collect::<Vec<_>>(),
                a.reset,
                a.demobilize
            );
        }
    }
}
