//! w1x — NTS client + NTPv5 extras world (DESIGN.md §4 "W1", §5 C07/C13/C14/C33/C34).
//!
//! * C07, C13: real NTS `NtpSource`s (v4/v5) against the real `Server` or a
//!   malicious-but-authenticated server, with an on-path adversary (`nts.rs`).
//! * C14: exhaustive enumeration cookie length 0..=1024 x stash fill 1..=8 x {v4,v5}
//!   through `handle_incoming` -> `handle_timer`; the oracle also runs on every
//!   `handle_timer` of the other runs.
//! * C33, C34: daemon-core nodes that also serve (`daemon.rs`).

mod common;
mod daemon;
mod nts;
mod wire;

use simkit::batch::{cli_main, Level, Property, WorldDef};

fn c14_space(thorough: bool) -> u64 {
    if thorough { nts::C14_BASE + nts::C14_MULTI + 60_000 } else { nts::C14_BASE + nts::C14_MULTI }
}

fn run() {
    match simkit::focus() {
        "C14" => nts::run_c14_case(),
        "C33" | "C34" => daemon::run_daemon(),
        _ => nts::run_nts(),
    }
}

fn main() {
    let assumptions: &'static [&'static str] = &[
        "the socket glue of ntpd/src/daemon/ntp_source.rs (send-time bookkeeping, <48-byte drop, 1024-byte receive buffer, action dispatch) is mirrored, not run",
        "NTS sessions are minted in-crate from the server's KeySet (what a finished key exchange hands to the source); the key exchange itself is W3's subject",
        "the clock algorithm behind the SourceController seam is replaced by a recording controller",
    ];
    let p = |id, quick_runs, thorough_runs, rule| Property {
        id,
        level: Level::Exploration,
        quick_runs,
        thorough_runs,
        quick_wall_s: 80.0,
        thorough_wall_s: 900.0,
        event_cap: 6_000,
        enumerate: None,
        rule,
        assumptions,
    };
    let mut c14 = p("C14", 0, 0, "one run = one case of the enumerated space (cookie length 0..=1024) x (stash fill 1..=8) x {NTPv4, NTPv5}: the cookies reach the stash through the real handle_incoming (authenticated response) or, where they cannot be carried by a <=1024-byte datagram, through the key-exchange constructor; then handle_timer is called for every stash level down to empty; a second enumerated family ({v4,v5} x 6 cookie-length classes x initial fill 1..=8 x surplus 1..=8 x 4 answer patterns) carries the stash across 20 poll/answer rounds against a key-holding server that returns more cookies than asked, exactly as many, fewer, none, or loses the answer; thorough adds mixed-length stashes and non-NTS sources under random histories");
    c14.level = Level::FaultEnumeration;
    c14.enumerate = Some(c14_space);
    c14.quick_wall_s = 85.0;
    cli_main(WorldDef {
        name: "w1x",
        run,
        properties: vec![
            p("C07", 200_000, 1_500_000, "one run = 1-3 NTS sources (v4/v5, AES-SIV-CMAC-256/512) polling the real Server or a key-holding byzantine server over a faulty network with an on-path adversary; every datagram delivered to a source is classified by provenance (simulator ground truth + own extension-field walker) and the probe view is compared before/after"),
            p("C13", 200_000, 1_500_000, "as C07; a FIFO-of-8-newest model of the cookie stash is driven by the ground-truth cookies of accepted responses and compared with every request (cookie, placeholder count) and with the probe's stash contents"),
            c14,
            p("C33", 60_000, 1_000_000, "one run = 1-3 daemon-core nodes (real NtpManager + real plain NtpSources + real Server on the same manager) in pairs/rings/self-loops plus a stratum-1 server, byzantine servers and dead addresses; the usable flag of every set_usable call and every published NtpSnapshot are recomputed from the statement"),
            p("C34", 50_000, 1_000_000, "as C33 biased to NTPv5 sources with chunk sizes {4..512} over a lossy/duplicating/reordering/damaging network and byzantine chunk answers; transfer state compared before/after every event, complete filters compared with the serving node's published filter, every real-server chunk answer compared with its filter"),
        ],
        real_components: &[
            "ntp_proto::NtpSource (handle_timer, handle_incoming, process_message) for NTS v4/v5 and plain v4/upgrade/v5",
            "ntp_proto::Server::handle with NTS (KeySet cookies, KeySetProvider::rotate)",
            "ntp_proto packet codec, AES-SIV ciphers, CookieStash",
            "ntp_proto::NtpManager (update_used_sources, NtpSnapshot::from_used_sources), NtpSourceSnapshot::accept_synchronization",
            "ntp_proto v5 RemoteBloomFilter / BloomFilter / ReferenceIdRequest::to_response",
        ],
        stub_components: &[
            "SourceTask::run socket glue -> ~40 mirrored lines",
            "SystemTask 1 Hz loop -> mirrored; used-source choice -> seeded stand-in for the controller",
            "key exchange -> in-crate minting of keys and cookies",
            "clock algorithm -> recording SourceController",
        ],
    })
}
