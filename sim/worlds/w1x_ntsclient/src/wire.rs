//! The simulator's own, independent view of the NTP wire format: header field
//! access by offset, an extension-field walker (v4 and v5 framing), builders for
//! the datagrams byzantine servers and the on-path adversary send, and the NTS
//! authenticator field (built/opened with the real AEAD through the `Cipher`
//! trait, but framed here). Nothing in this file calls the repo's packet codec.

use ntp_proto::Cipher;

pub const EF_UID: u16 = 0x0104;
pub const EF_COOKIE: u16 = 0x0204;
pub const EF_PLACEHOLDER: u16 = 0x0304;
pub const EF_NTS_AUTH: u16 = 0x0404;
pub const EF_DRAFT_ID: u16 = 0xF5FF;
pub const EF_REFID_REQ: u16 = 0xF503;
pub const EF_REFID_RESP: u16 = 0xF504;
pub const DRAFT: &[u8] = b"draft-ietf-ntp-ntpv5-09";

pub fn pad4(n: usize) -> usize {
    (n + 3) & !3
}

pub fn version(p: &[u8]) -> u8 {
    if p.is_empty() { 0 } else { (p[0] >> 3) & 7 }
}

pub fn mode(p: &[u8]) -> u8 {
    if p.is_empty() { 0 } else { p[0] & 7 }
}

pub fn be64(b: &[u8]) -> u64 {
    u64::from_be_bytes(b[..8].try_into().unwrap())
}

#[derive(Clone, Debug)]
pub struct Ef {
    pub ty: u16,
    /// offset of the field header in the packet
    pub off: usize,
    /// octets on the wire including header and padding
    pub wire_len: usize,
    /// value octets as the length field delimits them
    pub body: Vec<u8>,
}

/// Walk extension fields from byte 48; stops silently at the first malformed field.
/// `v5`: the length field need not be a multiple of 4 (padding follows).
pub fn walk(p: &[u8], v5: bool) -> Vec<Ef> {
    let mut out = vec![];
    let mut off = 48;
    while off + 4 <= p.len() {
        let ty = u16::from_be_bytes([p[off], p[off + 1]]);
        let len = u16::from_be_bytes([p[off + 2], p[off + 3]]) as usize;
        if len < 4 || (!v5 && len % 4 != 0) || off + pad4(len) > p.len() {
            break;
        }
        out.push(Ef {
            ty,
            off,
            wire_len: pad4(len),
            body: p[off + 4..off + len].to_vec(),
        });
        off += pad4(len);
    }
    out
}

/// Walk a bare sequence of fields (decrypted plaintext).
pub fn walk_plain(p: &[u8], v5: bool) -> Vec<Ef> {
    let mut buf = vec![0u8; 48];
    buf.extend_from_slice(p);
    let mut v = walk(&buf, v5);
    for e in &mut v {
        e.off -= 48;
    }
    v
}

/// End offset of the region covered by the NTS authenticator (header, fields before
/// it, and the authenticator field itself); None when there is no such field.
pub fn protected_end(p: &[u8], v5: bool) -> Option<usize> {
    walk(p, v5).iter().find(|e| e.ty == EF_NTS_AUTH).map(|e| e.off + e.wire_len)
}

pub fn ef(ty: u16, body: &[u8], min_size: usize, v5: bool) -> Vec<u8> {
    let mut len = (body.len() + 4).max(min_size);
    if !v5 {
        len = pad4(len);
    }
    let mut out = Vec::with_capacity(pad4(len));
    out.extend_from_slice(&ty.to_be_bytes());
    out.extend_from_slice(&(len as u16).to_be_bytes());
    out.extend_from_slice(body);
    out.resize(pad4(len), 0);
    out
}

/// NTS authenticator-and-encrypted field over `aad` (everything before it) with `plaintext` inside.
pub fn nts_auth_ef(cipher: &dyn Cipher, aad: &[u8], plaintext: &[u8]) -> Vec<u8> {
    let mut buf = vec![0u8; plaintext.len() + 64];
    buf[..plaintext.len()].copy_from_slice(plaintext);
    let r = cipher.encrypt(&mut buf, plaintext.len(), aad).expect("aead encrypt");
    let nonce = buf[..r.nonce_length].to_vec();
    let ct = buf[r.nonce_length..r.nonce_length + r.ciphertext_length].to_vec();
    let total = 8 + pad4(nonce.len()) + pad4(ct.len());
    let mut out = Vec::with_capacity(total);
    out.extend_from_slice(&EF_NTS_AUTH.to_be_bytes());
    out.extend_from_slice(&(total as u16).to_be_bytes());
    out.extend_from_slice(&(nonce.len() as u16).to_be_bytes());
    out.extend_from_slice(&(ct.len() as u16).to_be_bytes());
    out.extend_from_slice(&nonce);
    out.resize(8 + pad4(nonce.len()), 0);
    out.extend_from_slice(&ct);
    out.resize(total, 0);
    out
}

/// Open the authenticator of a datagram with the given key: Some(plaintext fields) iff it verifies.
pub fn open_auth(p: &[u8], v5: bool, cipher: &dyn Cipher) -> Option<Vec<Ef>> {
    let efs = walk(p, v5);
    let a = efs.iter().find(|e| e.ty == EF_NTS_AUTH)?;
    let b = &a.body;
    if b.len() < 4 {
        return None;
    }
    let nl = u16::from_be_bytes([b[0], b[1]]) as usize;
    let cl = u16::from_be_bytes([b[2], b[3]]) as usize;
    let nonce = b.get(4..4 + nl)?;
    let cs = 4 + pad4(nl);
    let ct = b.get(cs..cs + cl)?;
    let pt = cipher.decrypt(nonce, ct, &p[..a.off]).ok()?;
    Some(walk_plain(&pt, v5))
}

#[derive(Clone, Debug)]
pub struct Hdr {
    pub v5: bool,
    pub leap: u8,
    pub mode: u8,
    pub stratum: u8,
    pub poll: u8,
    pub precision: i8,
    pub root_delay: u32,
    pub root_disp: u32,
    /// v4: reference id; v5: timescale, era, flags(2)
    pub word3: [u8; 4],
    /// v4: reference timestamp; v5: server cookie
    pub f16: u64,
    /// v4: origin timestamp; v5: client cookie
    pub f24: u64,
    pub recv: u64,
    pub xmit: u64,
}

impl Hdr {
    pub fn bytes(&self) -> Vec<u8> {
        let mut o = Vec::with_capacity(48);
        let ver = if self.v5 { 5 } else { 4 };
        o.push((self.leap << 6) | (ver << 3) | (self.mode & 7));
        o.push(self.stratum);
        o.push(self.poll);
        o.push(self.precision as u8);
        o.extend_from_slice(&self.root_delay.to_be_bytes());
        o.extend_from_slice(&self.root_disp.to_be_bytes());
        o.extend_from_slice(&self.word3);
        o.extend_from_slice(&self.f16.to_be_bytes());
        o.extend_from_slice(&self.f24.to_be_bytes());
        o.extend_from_slice(&self.recv.to_be_bytes());
        o.extend_from_slice(&self.xmit.to_be_bytes());
        o
    }

    pub fn parse(p: &[u8]) -> Option<Hdr> {
        if p.len() < 48 {
            return None;
        }
        Some(Hdr {
            v5: version(p) == 5,
            leap: p[0] >> 6,
            mode: p[0] & 7,
            stratum: p[1],
            poll: p[2],
            precision: p[3] as i8,
            root_delay: u32::from_be_bytes(p[4..8].try_into().unwrap()),
            root_disp: u32::from_be_bytes(p[8..12].try_into().unwrap()),
            word3: p[12..16].try_into().unwrap(),
            f16: be64(&p[16..24]),
            f24: be64(&p[24..32]),
            recv: be64(&p[32..40]),
            xmit: be64(&p[40..48]),
        })
    }

    /// A server-mode answer to `req` (a parsed request) with the identifying field echoed.
    pub fn answer_to(req: &Hdr, stratum: u8, refid: [u8; 4], recv: u64, xmit: u64) -> Hdr {
        if req.v5 {
            Hdr {
                v5: true,
                leap: 0,
                mode: 4,
                stratum,
                poll: req.poll,
                precision: -20,
                root_delay: 0x0000_1000,
                root_disp: 0x0000_1000,
                // timescale UTC, era 0, flags: synchronized
                word3: [0, 0, 0, if stratum != 0 && stratum < 16 { 1 } else { 0 }],
                f16: 0x5345_5256_0000_0001,
                f24: req.f24,
                recv,
                xmit,
            }
        } else {
            Hdr {
                v5: false,
                leap: 0,
                mode: 4,
                stratum,
                poll: req.poll,
                precision: -20,
                root_delay: 0x0000_0100,
                root_disp: 0x0000_0100,
                word3: refid,
                f16: recv & 0xFFFF_FF80_0000_0000,
                f24: req.xmit,
                recv,
                xmit,
            }
        }
    }
}

/// Unique-identifier value of a request (first such field), if any.
pub fn request_uid(p: &[u8]) -> Option<Vec<u8>> {
    let v5 = version(p) == 5;
    walk(p, v5).into_iter().find(|e| e.ty == EF_UID).map(|e| e.body)
}

/// (offset, requested length) of a reference-id chunk request in a v5 request.
pub fn refid_request(p: &[u8]) -> Option<(u16, u16)> {
    walk(p, true).into_iter().find(|e| e.ty == EF_REFID_REQ).and_then(|e| {
        if e.body.len() < 2 {
            return None;
        }
        Some((u16::from_be_bytes([e.body[0], e.body[1]]), e.body.len() as u16))
    })
}

pub fn refid_request_ef(offset: u16, payload_len: usize) -> Vec<u8> {
    let mut body = vec![0u8; payload_len.max(2)];
    body[..2].copy_from_slice(&offset.to_be_bytes());
    ef(EF_REFID_REQ, &body[..payload_len.max(2)], 4, true)
}
