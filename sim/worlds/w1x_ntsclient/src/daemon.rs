//! Daemon-core world for C33 (advertised stratum / reference id, loop avoidance) and
//! C34 (NTPv5 Bloom filter transfer): nodes with a real `NtpManager`, real plain
//! `NtpSource`s (v4, upgrading, v5 with chunk sizes dividing 512) and a real `Server`
//! fed from the same manager, so that nodes serve each other (pairs, rings, self
//! sources), plus byzantine plain servers. The glue of `ntpd/src/daemon/system.rs`
//! (1 Hz `update_used_sources`) is mirrored; the clock algorithm is replaced by a
//! recording source controller and a seeded choice of the used-source order.

use std::net::{IpAddr, SocketAddr};
use std::sync::Arc;

use ntp_proto::verif::system::{XSourceView, refid_bytes};
use ntp_proto::verif::ts_to_fixed;
use ntp_proto::{
    ClockId, FilterAction, FilterList, KeySetProvider, NtpClock, NtpManager, NtpSource, NtpTimestamp, NtpVersion, PollInterval,
    PollIntervalLimits, ProtocolVersion, Server, ServerAction, ServerConfig, SourceConfig, SourceType, SynchronizationConfig,
};
use simkit::net::{Datagram, NetCfg, SimNet};
use simkit::{chance, check, choose, ev, exec, fault, probe, weighted};
use simntp::SimClock;

use crate::common::*;
use crate::nts::check_bloom_change;
use crate::wire::{self, Hdr};

#[derive(Clone, Debug)]
enum Kind {
    Request { node: usize, slot: usize, seq: u64 },
    Resp {
        node: usize,
        slot: usize,
        seq: u64,
        /// echoes the request's identifying field
        bound: bool,
        /// (serving node, version of its published filter when it answered)
        filter_version: Option<(usize, usize)>,
        tag: &'static str,
    },
}

#[derive(Clone, Debug)]
struct Meta {
    kind: Kind,
}

struct Slot {
    id: ClockId,
    target: u32,
    v5_capable: bool,
    src: Option<NtpSource<Spy>>,
    spy: Spy,
    next_timer: Option<u64>,
    last_send: Option<NtpTimestamp>,
    seq: u64,
    accepted_seq: Option<u64>,
    measured: bool,
    /// stratum / reference id the source last reported (header of the last accepted answer as delivered)
    m_stratum: u8,
    m_refid: Option<[u8; 4]>,
    chunk_versions: Vec<Option<(usize, usize)>>,
    pv: ProtocolVersion,
    chunk: u16,
    limits: PollIntervalLimits,
    respawns: u32,
}

#[derive(Clone, Copy, PartialEq, Debug)]
enum Byz {
    Normal,
    RefidLoop,
    BloomLoop,
    HighStratum,
    BloomWrongSize,
    StaleCookie,
    Unsolicited,
}

enum Role {
    Daemon,
    Byzantine(Byz),
    Absent,
}

struct Node {
    idx: usize,
    addr: u32,
    ips: Vec<IpAddr>,
    role: Role,
    mgr: NtpManager,
    server: Server<SimClock>,
    clock: SimClock,
    slots: Vec<Slot>,
    local_stratum: u8,
    pps: Option<ClockId>,
    pref: usize,
    next_tick: u64,
    filters: Vec<[u8; 512]>,
    byz_filter: [u8; 512],
    byz_ids: Vec<ntp_proto::v5::ServerId>,
    /// byzantine servers behave normally for this many answers, then show their kind
    flip_after: u64,
    served: u64,
    last_logged: (u8, [u8; 4]),
    ticks: u64,
}

fn view(s: &Slot) -> XSourceView {
    s.src.as_ref().unwrap().verif_x_view()
}

fn bit_set(bytes: &[u8; 512], idx: u16) -> bool {
    bytes[idx as usize / 8] & (1 << (idx % 8)) != 0
}

/// C33 model, straight from the statement.
fn model_reasons(node: &Node, slot: &Slot, after: &XSourceView) -> Vec<&'static str> {
    let mut r = vec![];
    if slot.m_stratum >= node.local_stratum {
        r.push("stratum-not-below-local");
    }
    if after.reach == 0 {
        r.push("unreachable");
    }
    if node.ips.contains(&ip_of(slot.target)) {
        r.push("is-this-daemon");
    }
    if after.bloom.filled && node.mgr.verif_server_id().verif_indices().iter().all(|i| bit_set(&after.bloom.bytes, *i)) {
        r.push("bloom-filter-contains-our-id");
    }
    if let Some(refid) = slot.m_refid {
        if slot.m_stratum > 1 && node.ips.iter().any(|ip| refid_of(*ip) == refid) {
            r.push("reports-our-address-as-reference-id");
        }
    }
    r
}

fn check_usable(node: &Node, si: usize, u0: usize, what: &str) {
    let slot = &node.slots[si];
    let (_, u1) = slot.spy.counts();
    if u1 == u0 {
        return;
    }
    let u = slot.spy.last_usable().unwrap();
    let after = view(slot);
    let reasons = model_reasons(node, slot, &after);
    let detail = format!(
        "node{} src{}->{} {what}: set_usable({u}) but model reasons to reject = {reasons:?} (source stratum {} refid {:?} local stratum {} reach {:08b} filter-complete {})",
        node.idx, si, slot.target, slot.m_stratum, slot.m_refid, node.local_stratum, after.reach, after.bloom.filled
    );
    simkit::oracle("C33");
    for r in &reasons {
        probe(match *r {
            "stratum-not-below-local" => "model-rejects:stratum-not-below-local",
            "unreachable" => "model-rejects:unreachable",
            "is-this-daemon" => "model-rejects:is-this-daemon",
            "bloom-filter-contains-our-id" => "model-rejects:bloom-filter-contains-our-id",
            _ => "model-rejects:reports-our-address-as-reference-id",
        });
    }
    if reasons.is_empty() {
        probe("model-accepts");
    }
    if u && !reasons.is_empty() {
        let clause = match reasons[0] {
            "stratum-not-below-local" => "usable-despite-stratum-not-below-local",
            "unreachable" => "usable-despite-unreachable",
            "is-this-daemon" => "usable-despite-being-this-daemon",
            "bloom-filter-contains-our-id" => "usable-despite-bloom-filter-loop",
            _ => "usable-despite-reference-id-loop",
        };
        simkit::violation("C33", clause, detail);
    } else if !u && reasons.is_empty() {
        simkit::violation("C33", "unusable-without-reason", detail);
    }
}

fn on_timer(nodes: &mut [Node], net: &mut SimNet<Meta>, ni: usize, si: usize, now: u64) {
    let before = view(&nodes[ni].slots[si]);
    let (_, u0) = nodes[ni].slots[si].spy.counts();
    let res = {
        let src = nodes[ni].slots[si].src.as_mut().unwrap();
        exec::catch(|| collect(src.handle_timer()))
    };
    check_c14(&res, &format!("plain source node{ni} src{si} {:?}", before.protocol_version));
    nodes[ni].slots[si].next_timer = None;
    let a = match res {
        Ok(a) => a,
        Err(_) => {
            nodes[ni].slots[si].src = None;
            return;
        }
    };
    let after = view(&nodes[ni].slots[si]);
    check_bloom_change(&before.bloom, &after.bloom, None, "handle_timer");
    check_usable(&nodes[ni], si, u0, "at poll");
    let node = &mut nodes[ni];
    let slot = &mut node.slots[si];
    if a.reset || a.demobilize {
        ev!("node{ni} src{si} stops ({})", if a.reset { "Reset" } else { "Demobilize" });
        probe("plain-source-stopped");
        // the daemon would respawn it: a new source object for the same address
        slot.src = None;
        return;
    }
    if let Some(p) = a.send.first() {
        slot.seq += 1;
        slot.last_send = Some(node.clock.now().unwrap());
        if let Some(d) = a.timer {
            slot.next_timer = Some(now + d.as_nanos() as u64);
        }
        net.send(now, node.addr, slot.target, p.clone(), Meta { kind: Kind::Request { node: ni, slot: si, seq: slot.seq } });
    }
}

fn spawn_source(node: &mut Node, si: usize, pv: ProtocolVersion, chunk: u16, limits: PollIntervalLimits) {
    let mut cfg = SourceConfig::default();
    cfg.poll_interval_limits = limits;
    cfg.initial_poll_interval = limits.min;
    let slot = &mut node.slots[si];
    let (mut src, _a) = node.mgr.new_source(SocketAddr::new(ip_of(slot.target), 123), cfg, pv, slot.spy.clone(), None, slot.id);
    if chunk != 16 {
        let ok = src.verif_x_with_bloom_chunk(chunk);
        assert!(ok, "chunk size {chunk}");
    }
    slot.chunk_versions = vec![None; 512 / chunk as usize];
    slot.src = Some(src);
}

fn serve(nodes: &mut [Node], net: &mut SimNet<Meta>, d: &Datagram<Meta>, ti: usize, now: u64) {
    let Kind::Request { node: rn, slot: rs, seq } = d.meta.kind.clone() else { return };
    // requesters beyond the node table are the direct Bloom-filter clients
    let requester_ips = if rn < nodes.len() { nodes[rn].ips.clone() } else { vec![ip_of(d.from)] };
    let requester_id = nodes[if rn < nodes.len() { rn } else { ti }].mgr.verif_server_id();
    let t = &mut nodes[ti];
    match t.role {
        Role::Absent => {}
        Role::Daemon => {
            ntp_proto::verif::set_mono_ns(now);
            let recv = t.clock.now().unwrap();
            let len = d.bytes.len();
            let mut buf = vec![0u8; len.max(1)];
            let info = t.mgr.verif_server_info();
            let res = {
                let server = &mut t.server;
                let ip = ip_of(d.from);
                let bytes = &d.bytes;
                exec::catch(|| match server.handle(ip, recv, bytes, &mut buf[..len], &mut NoStats) {
                    ServerAction::Ignore => None,
                    ServerAction::Respond { message } => Some(message.to_vec()),
                })
            };
            let resp = match res {
                Ok(Some(r)) => r,
                Ok(None) => return,
                Err(msg) => {
                    simkit::abort(format!("real server panicked (not this world's property): {msg}"));
                    return;
                }
            };
            let filter = *info.ntp_snapshot.bloom_filter.as_bytes();
            // C33: the server advertises exactly the published snapshot
            if resp.len() >= 48 && resp[1] != 0 {
                let v5 = wire::version(&resp) == 5;
                check!(
                    "C33",
                    "server-advertises-published-snapshot",
                    resp[1] == info.ntp_snapshot.stratum && (v5 || resp[12..16] == refid_bytes(info.ntp_snapshot.reference_id)),
                    "node{ti} answered with stratum {} refid {:?} while its published snapshot is stratum {} refid {:?}",
                    resp[1],
                    &resp[12..16],
                    info.ntp_snapshot.stratum,
                    refid_bytes(info.ntp_snapshot.reference_id)
                );
            }
            // C34: each chunk answer is exactly the requested bytes, or absent
            if wire::version(&d.bytes) == 5 && wire::version(&resp) == 5 {
                let reqs: Vec<(usize, usize)> = wire::walk(&d.bytes, true)
                    .into_iter()
                    .filter(|e| e.ty == wire::EF_REFID_REQ && e.body.len() >= 2)
                    .map(|e| (u16::from_be_bytes([e.body[0], e.body[1]]) as usize, e.body.len()))
                    .collect();
                let resps: Vec<Vec<u8>> = wire::walk(&resp, true).into_iter().filter(|e| e.ty == wire::EF_REFID_RESP).map(|e| e.body).collect();
                let mut ri = 0;
                let mut ok = true;
                for r in &resps {
                    let mut found = false;
                    while ri < reqs.len() {
                        let (off, len) = reqs[ri];
                        ri += 1;
                        if off + len <= 512 && r.as_slice() == &filter[off..off + len] {
                            found = true;
                            break;
                        }
                    }
                    ok &= found;
                }
                if !reqs.is_empty() {
                    check!(
                        "C34",
                        "server-answers-exactly-the-requested-bytes-or-nothing",
                        ok,
                        "node{ti}: chunk requests {reqs:?} answered with fields of lengths {:?} that are not the requested slices of its filter",
                        resps.iter().map(|r| r.len()).collect::<Vec<_>>()
                    );
                    if resps.is_empty() {
                        probe("chunk-request-unanswered");
                    }
                }
            }
            let version = t.filters.len() - 1;
            // whatever the request said, the answer echoes it; only intact exchanges count for the completeness check
            let bound = true;
            let intact = d.mutation.is_none();
            net.send(
                now,
                d.to,
                d.from,
                resp,
                Meta { kind: Kind::Resp { node: rn, slot: rs, seq, bound, filter_version: if intact { Some((ti, version)) } else { None }, tag: "real-server" } },
            );
        }
        Role::Byzantine(b) => {
            let Some(rh) = Hdr::parse(&d.bytes) else { return };
            if d.mutation.is_some() {
                return;
            }
            let f = ts_to_fixed(t.clock.now().unwrap());
            let mut stratum = 2u8;
            let mut refid = *b"GPS\0";
            let mut bound = true;
            let mut filter = t.byz_filter;
            let mut tag = "byz-normal";
            t.served += 1;
            let b = if t.served <= t.flip_after { Byz::Normal } else { b };
            match b {
                Byz::Normal => {}
                Byz::RefidLoop => {
                    tag = "byz-refid-loop";
                    stratum = 2 + choose("byz.loopstratum", 3) as u8;
                    refid = refid_of(requester_ips[choose("byz.loopip", requester_ips.len() as u64) as usize]);
                    fault("byz-reports-client-as-reference");
                }
                Byz::BloomLoop => {
                    tag = "byz-bloom-loop";
                    for i in requester_id.verif_indices() {
                        filter[i as usize / 8] |= 1 << (i % 8);
                    }
                    fault("byz-filter-contains-client-id");
                }
                Byz::HighStratum => {
                    tag = "byz-high-stratum";
                    stratum = [15u8, 16, 8, 4][choose("byz.highstratum", 4) as usize];
                    fault("byz-high-stratum");
                }
                _ => {}
            }
            let mut h = Hdr::answer_to(&rh, stratum, refid, f, f);
            if b == Byz::StaleCookie && chance("byz.stale", 0.5) {
                tag = "byz-stale-cookie";
                h.f24 ^= 0x0100;
                bound = false;
                fault("byz-bloom-stale");
            }
            let mut out = h.bytes();
            let mut second: Option<Vec<u8>> = None;
            if rh.v5 {
                if let Some((off, len)) = wire::refid_request(&d.bytes) {
                    let (off, len) = (off as usize, len as usize);
                    let mut chunk: Vec<u8> = if off + len <= 512 { filter[off..off + len].to_vec() } else { vec![] };
                    if b == Byz::BloomWrongSize && chance("byz.wrongsize", 0.5) {
                        tag = "byz-bloom-wrong-size";
                        fault("byz-bloom-wrong-size");
                        if chance("byz.wrongsize.longer", 0.5) {
                            chunk.extend_from_slice(&[0xEE; 4]);
                        } else {
                            chunk.truncate(len.saturating_sub(4));
                        }
                    }
                    out.extend(wire::ef(wire::EF_REFID_RESP, &chunk, 4, true));
                    if b == Byz::Unsolicited && chance("byz.unsolicited", 0.5) {
                        fault("byz-bloom-unsolicited");
                        let mut o2 = h.bytes();
                        o2.extend(wire::ef(wire::EF_REFID_RESP, &vec![0xDD; len], 4, true));
                        o2.extend(wire::ef(wire::EF_DRAFT_ID, wire::DRAFT, 4, true));
                        second = Some(o2);
                    }
                }
                out.extend(wire::ef(wire::EF_DRAFT_ID, wire::DRAFT, 4, true));
            }
            let faithful = matches!(b, Byz::Normal | Byz::RefidLoop | Byz::HighStratum);
            net.send(now, d.to, d.from, out, Meta { kind: Kind::Resp { node: rn, slot: rs, seq, bound, filter_version: if faithful { Some((ti, 0)) } else { None }, tag } });
            if let Some(o2) = second {
                net.send(now + 2_000_000, d.to, d.from, o2, Meta { kind: Kind::Resp { node: rn, slot: rs, seq, bound, filter_version: None, tag: "byz-unsolicited-second-answer" } });
            }
        }
    }
}

fn deliver(nodes: &mut [Node], d: Datagram<Meta>, ni: usize) {
    let Kind::Resp { node, slot: si, seq, bound, filter_version, tag } = d.meta.kind.clone() else { return };
    if node != ni || nodes[ni].slots[si].src.is_none() {
        return;
    }
    let mut bytes = d.bytes.clone();
    bytes.truncate(1024);
    if bytes.len() < 48 {
        return;
    }
    let Some(send_ts) = nodes[ni].slots[si].last_send else { return };
    let recv_ts = nodes[ni].clock.now().unwrap();
    let before = view(&nodes[ni].slots[si]);
    let (m0, u0) = nodes[ni].slots[si].spy.counts();
    let outstanding = seq == nodes[ni].slots[si].seq && nodes[ni].slots[si].accepted_seq != Some(seq);
    let res = {
        let src = nodes[ni].slots[si].src.as_mut().unwrap();
        exec::catch(|| collect(src.handle_incoming(&bytes, send_ts, recv_ts)))
    };
    let a = match res {
        Ok(a) => a,
        Err(msg) => {
            ev!("node{ni} src{si} PANIC on datagram ({tag}): {msg}");
            let chunk_len = if wire::version(&bytes) == 5 { wire::walk(&bytes, true).into_iter().find(|e| e.ty == wire::EF_REFID_RESP).map(|e| e.body.len()) } else { None };
            if let Some(n) = chunk_len {
                // a chunk answer must be accepted or ignored, never crash the source task
                simkit::oracle("C34");
                simkit::violation(
                    "C34",
                    "chunk-answer-crashed-the-source",
                    format!("node{ni} src{si}: answer {tag} carrying a {n}-byte chunk (requested size {}) made handle_incoming panic: {msg}", before.bloom.chunk_size),
                );
            } else {
                // plain-source robustness is the plain-source world's property; keep it visible as an aborted run
                probe("plain-source-panicked-on-datagram");
                simkit::abort(format!("plain source panicked on a datagram without chunk field ({tag}): {msg}"));
            }
            nodes[ni].slots[si].src = None;
            return;
        }
    };
    let after = view(&nodes[ni].slots[si]);
    let (m1, _) = nodes[ni].slots[si].spy.counts();
    let accepted = m1 > m0;
    let v5 = wire::version(&bytes) == 5;
    let chunk: Option<Vec<u8>> = if v5 { wire::walk(&bytes, true).into_iter().find(|e| e.ty == wire::EF_REFID_RESP).map(|e| e.body) } else { None };
    {
        let slot = &mut nodes[ni].slots[si];
        if accepted {
            slot.accepted_seq = Some(seq);
            slot.measured = true;
            slot.m_stratum = bytes[1];
            slot.m_refid = if v5 { None } else { Some(bytes[12..16].try_into().unwrap()) };
        }
    }
    let solicited = if outstanding && accepted { chunk.as_deref() } else { None };
    check_bloom_change(&before.bloom, &after.bloom, solicited, &format!("node{ni} src{si} datagram {tag} outstanding={outstanding} bound={bound} accepted={accepted}"));
    // (a stale answer damaged in flight may by chance carry the right cookie again: judge intact ones only)
    if !outstanding || (!bound && d.mutation.is_none()) {
        // C34: a stale or unsolicited answer never reaches the filter
        check!(
            "C34",
            "stale-or-unsolicited-answer-ignored",
            before.bloom == after.bloom,
            "node{ni} src{si}: answer {tag} (outstanding={outstanding} bound={bound}) changed the transfer state"
        );
    }
    // bookkeeping for the completeness check
    if before.bloom.bytes != after.bloom.bytes || before.bloom.next_to_request != after.bloom.next_to_request {
        if let Some((off, _)) = before.bloom.last_requested {
            let slot = &mut nodes[ni].slots[si];
            let i = off as usize / before.bloom.chunk_size as usize;
            slot.chunk_versions[i] = if d.mutation.is_none() { filter_version } else { None };
            probe("chunk-accepted");
        }
    }
    if after.bloom.filled {
        let slot = &nodes[ni].slots[si];
        if let Some(Some((sn, ver))) = slot.chunk_versions.first().copied() {
            if slot.chunk_versions.iter().all(|v| *v == Some((sn, ver))) {
                let want = &nodes[sn].filters[ver];
                check!(
                    "C34",
                    "complete-filter-equals-servers-filter",
                    &after.bloom.bytes == want,
                    "node{ni} src{si} (chunk size {}): every chunk came from node{sn}'s filter version {ver}, yet the assembled filter differs in {} bytes",
                    after.bloom.chunk_size,
                    after.bloom.bytes.iter().zip(want.iter()).filter(|(a, b)| a != b).count()
                );
                if matches!(nodes[sn].role, Role::Byzantine(_)) {
                    let snap = nodes[ni].mgr.verif_source_snapshot(slot.id);
                    if let Some(Some(f)) = snap.map(|s| s.bloom_filter) {
                        check!(
                            "C34",
                            "no-false-negative-for-added-id",
                            nodes[sn].byz_ids.iter().all(|id| f.contains_id(id)),
                            "node{ni} src{si}: the complete filter fetched from node{sn} misses one of the {} ids it was built from",
                            nodes[sn].byz_ids.len()
                        );
                        probe("fetched-filter-membership-checked");
                    }
                } else if ver > 0 {
                    let snap = nodes[ni].mgr.verif_source_snapshot(slot.id);
                    if let Some(Some(f)) = snap.map(|s| s.bloom_filter) {
                        let sid = nodes[sn].mgr.verif_server_id();
                        check!("C34", "no-false-negative-for-added-id", f.contains_id(&sid), "node{ni} src{si}: the complete filter fetched from node{sn} does not report node{sn}'s own id");
                    }
                }
                probe("complete-filter-compared");
            }
        }
    }
    if accepted {
        // C33 order clause: the measurement of a response for which the statement says "do not use"
        // must not reach the controller while it still believes the source usable
        let slot = &nodes[ni].slots[si];
        let reasons = model_reasons(&nodes[ni], slot, &after);
        let told = slot.spy.told_at(m0 + 1);
        simkit::oracle("C33");
        if !reasons.is_empty() {
            probe("measurement-of-rejected-response");
            if told != Some(false) {
                simkit::violation(
                    "C33",
                    "rejected-response-measured-while-believed-usable",
                    format!(
                        "node{ni} src{si}->{} answer {tag}: the model rejects the source with this response ({reasons:?}; stratum {} refid {:?} local stratum {}), yet its measurement reached the controller while the last set_usable was {told:?}",
                        slot.target, slot.m_stratum, slot.m_refid, nodes[ni].local_stratum
                    ),
                );
            }
            if u0 > 0 && slot.spy.0.lock().unwrap().usable[u0 - 1] {
                probe("usable-source-flipped-to-rejected-on-this-response");
            }
        }
    }
    check_usable(&nodes[ni], si, u0, &format!("on answer {tag}"));
    if a.demobilize || a.reset {
        nodes[ni].slots[si].src = None;
    }
    let _ = a.n;
}

/// A client that drives the real `RemoteBloomFilter` directly: it builds its own NTPv5
/// requests around `next_request` and hands EVERY answer that reaches it to
/// `handle_response` without any pre-validation, so the filter's own "outstanding
/// request / requested size" checks are what is exercised.
struct Raw {
    addr: u32,
    target: u32,
    rbf: ntp_proto::verif::system::RemoteBloomFilter,
    chunk: u16,
    next_timer: u64,
    period: u64,
    seq: u64,
    /// model of the transfer: outstanding (cookie, offset), assembled bytes, next offset, complete
    outstanding: Option<([u8; 8], u16)>,
    m_bytes: [u8; 512],
    m_next: u16,
    m_filled: bool,
    versions: Vec<Option<(usize, usize)>>,
}

fn raw_timer(raws: &mut [Raw], ri: usize, base: usize, net: &mut SimNet<Meta>, now: u64) {
    let r = &mut raws[ri];
    let cookie = simkit::choose_u64("raw.cookie").to_be_bytes();
    let before = r.rbf.verif_view();
    let req = r.rbf.next_request(ntp_proto::verif::system::NtpClientCookie(cookie));
    let after = r.rbf.verif_view();
    check!(
        "C34",
        "chunk-request-follows-the-transfer",
        req.offset() == r.m_next && req.payload_len() == r.chunk && before.bytes == after.bytes,
        "direct client {ri}: requested offset {} len {} while the model expects offset {} len {}",
        req.offset(),
        req.payload_len(),
        r.m_next,
        r.chunk
    );
    r.outstanding = Some((cookie, req.offset()));
    r.seq += 1;
    let h = Hdr {
        v5: true,
        leap: 0,
        mode: 3,
        stratum: 0,
        poll: 4,
        precision: 0,
        root_delay: 0,
        root_disp: 0,
        word3: [0; 4],
        f16: 0,
        f24: u64::from_be_bytes(cookie),
        recv: 0,
        xmit: 0,
    };
    let mut out = h.bytes();
    out.extend(wire::refid_request_ef(req.offset(), req.payload_len() as usize));
    out.extend(wire::ef(wire::EF_DRAFT_ID, wire::DRAFT, 4, true));
    net.send(now, r.addr, r.target, out, Meta { kind: Kind::Request { node: base + ri, slot: 0, seq: r.seq } });
    r.next_timer = now + r.period;
}

fn raw_deliver(raws: &mut [Raw], ri: usize, nodes: &[Node], d: &Datagram<Meta>) {
    let Kind::Resp { filter_version, tag, .. } = d.meta.kind.clone() else { return };
    let r = &mut raws[ri];
    let bytes = &d.bytes;
    if bytes.len() < 48 || wire::version(bytes) != 5 {
        return;
    }
    let Some(chunk) = wire::walk(bytes, true).into_iter().find(|e| e.ty == wire::EF_REFID_RESP).map(|e| e.body) else { return };
    let cookie: [u8; 8] = bytes[24..32].try_into().unwrap();
    let before = r.rbf.verif_view();
    let rbf = &mut r.rbf;
    let res = exec::catch(|| rbf.handle_response(ntp_proto::verif::system::NtpClientCookie(cookie), &ntp_proto::verif::system::ReferenceIdResponse::decode(&chunk)).is_ok());
    let accepted = match res {
        Ok(a) => a,
        Err(msg) => {
            simkit::oracle("C34");
            simkit::violation(
                "C34",
                "chunk-answer-crashed-the-source",
                format!("direct client {ri}: answer {tag} with a {}-byte chunk (requested {}) made handle_response panic: {msg}", chunk.len(), r.chunk),
            );
            r.target = u32::MAX;
            r.next_timer = u64::MAX;
            return;
        }
    };
    let after = r.rbf.verif_view();
    // model: accept iff a request is outstanding, the cookie is that request's, and the size is the requested one
    let model_accept = matches!(r.outstanding, Some((c, _)) if c == cookie) && chunk.len() == r.chunk as usize;
    if model_accept {
        let (_, off) = r.outstanding.take().unwrap();
        let (off, n) = (off as usize, r.chunk as usize);
        r.m_bytes[off..off + n].copy_from_slice(&chunk);
        r.m_next = ((off + n) % 512) as u16;
        if r.m_next == 0 {
            r.m_filled = true;
        }
        r.versions[off / n] = if d.mutation.is_none() { filter_version } else { None };
        probe("direct-chunk-accepted");
    } else {
        probe("direct-chunk-rejected");
    }
    check!(
        "C34",
        "chunk-accepted-only-for-outstanding-request-and-size",
        accepted == model_accept && after.bytes == r.m_bytes && after.next_to_request == r.m_next && after.filled == r.m_filled && (model_accept || after == before),
        "direct client {ri} (chunk size {}): answer {tag} cookie {:?} len {} -> accepted={accepted}, model={model_accept}; filter bytes equal model: {}, next {} vs {}, complete {} vs {}",
        r.chunk,
        hex(&cookie),
        chunk.len(),
        after.bytes == r.m_bytes,
        after.next_to_request,
        r.m_next,
        after.filled,
        r.m_filled
    );
    check!("C34", "complete-filter-only-after-all-chunks", r.rbf.full_filter().is_some() == r.m_filled, "direct client {ri}: full_filter() is {} but the model says complete={}", r.rbf.full_filter().is_some(), r.m_filled);
    if r.m_filled {
        if let Some(Some((sn, ver))) = r.versions.first().copied() {
            if r.versions.iter().all(|v| *v == Some((sn, ver))) {
                let full = r.rbf.full_filter().map(|f| *f.as_bytes());
                check!(
                    "C34",
                    "complete-filter-equals-servers-filter",
                    full.as_ref() == Some(&nodes[sn].filters[ver]),
                    "direct client {ri} (chunk size {}): every chunk came from node{sn}'s filter version {ver}, yet the assembled filter differs",
                    r.chunk
                );
                let ids_ok = match (&nodes[sn].role, r.rbf.full_filter()) {
                    (Role::Byzantine(_), Some(f)) => nodes[sn].byz_ids.iter().all(|id| f.contains_id(id)),
                    (Role::Daemon, Some(f)) if ver > 0 => f.contains_id(&nodes[sn].mgr.verif_server_id()),
                    _ => true,
                };
                check!("C34", "no-false-negative-for-added-id", ids_ok, "direct client {ri}: the complete filter fetched from node{sn} misses an id that was added to it");
                probe("complete-filter-compared");
            }
        }
    }
}

fn tick(nodes: &mut [Node], ni: usize) {
    let node = &mut nodes[ni];
    node.ticks += 1;
    if node.ticks % 16 == 0 && chance("sel.repick", 0.3) {
        node.pref = choose("sel.pref", 4) as usize;
    }
    // stand-in for the controller's choice: usable sources that have measured, rotated by preference
    let mut cand: Vec<usize> = (0..node.slots.len())
        .filter(|i| node.slots[*i].src.is_some() && node.slots[*i].measured && node.slots[*i].spy.last_usable() == Some(true))
        .collect();
    if !cand.is_empty() {
        let r = node.pref % cand.len();
        cand.rotate_left(r);
    }
    let mut list: Vec<(ClockId, SourceType)> = vec![];
    if let Some(p) = node.pps {
        list.push((p, SourceType::Pps));
    }
    list.extend(cand.iter().map(|i| (node.slots[*i].id, SourceType::Ntp)));
    let snap = node.mgr.update_used_sources(list.into_iter());
    let rb = refid_bytes(snap.reference_id);
    let (want_stratum, want_refid): (u8, Option<[u8; 4]>) = if node.pps.is_some() {
        (1, Some(*b"PPS\0"))
    } else if let Some(p) = cand.first() {
        (node.slots[*p].m_stratum.saturating_add(1), Some(refid_of(ip_of(node.slots[*p].target))))
    } else {
        (node.local_stratum, None)
    };
    check!(
        "C33",
        "advertised-stratum-and-reference-id",
        snap.stratum == want_stratum && want_refid.map(|r| r == rb).unwrap_or(true),
        "node{ni}: used sources {cand:?} (pps={}) -> published stratum {} refid {rb:?}, statement gives stratum {want_stratum} refid {want_refid:?}",
        node.pps.is_some(),
        snap.stratum
    );
    let published = node.mgr.verif_server_info().ntp_snapshot;
    check!("C33", "published-snapshot-is-what-servers-read", published.stratum == snap.stratum && refid_bytes(published.reference_id) == rb, "node{ni}: update_used_sources returned a snapshot different from the one its servers read");
    // C34: membership for every id added (own id; every complete filter of a used source is included)
    let fb = *snap.bloom_filter.as_bytes();
    let own = node.mgr.verif_server_id();
    let mut ok = snap.bloom_filter.contains_id(&own) && own.verif_indices().iter().all(|i| bit_set(&fb, *i));
    for (k, i) in cand.iter().enumerate() {
        let _ = k;
        let v = view(&node.slots[*i]);
        if v.bloom.filled {
            ok &= v.bloom.bytes.iter().zip(fb.iter()).all(|(a, b)| a & !b == 0);
        }
    }
    check!("C34", "published-filter-has-no-false-negative", ok, "node{ni}: published filter misses its own id or a used source's complete filter");
    if *node.filters.last().unwrap() != fb {
        node.filters.push(fb);
    }
    if node.last_logged != (snap.stratum, rb) {
        ev!("node{ni} publishes stratum {} refid {rb:?} used={cand:?}", snap.stratum);
        node.last_logged = (snap.stratum, rb);
    }
}

pub fn run_daemon() {
    simntp::reset_hooks();
    let focus = simkit::focus();
    let c34 = focus == "C34";
    let clean = !chance("cfg.faulty", 0.75);
    let ndaemons = 1 + weighted("cfg.ndaemons", &[3, 4, 3]);
    let nbyz = if clean { choose("cfg.nbyz.clean", 2) as usize } else { choose("cfg.nbyz", 4) as usize };
    let mut netcfg = if clean { NetCfg::clean() } else { NetCfg::swarm() };
    if !c34 {
        // header damage makes "what the source reported" a matter of the damaged bytes; keep C33 on intact datagrams mostly
        netcfg.truncate_p = 0.0;
        netcfg.extend_p = 0.0;
    }
    let horizon_s = 30 + choose("cfg.horizon", 220);
    ev!("cfg daemon-world clean={clean} daemons={ndaemons} byz={nbyz} horizon={horizon_s}s focus={focus}");

    exec::block_on(async move {
        let epoch: u64 = 0xE000_0000u64 << 32;
        let mut nodes: Vec<Node> = vec![];
        let mut net: SimNet<Meta> = SimNet::new(netcfg);
        let total = ndaemons + 1 + nbyz; // daemons, one stratum-1 server, byzantine servers
        for i in 0..total {
            let addr = 10 + i as u32;
            let is_root = i == ndaemons;
            let role = if i < ndaemons || is_root {
                Role::Daemon
            } else {
                let kinds = if c34 {
                    [Byz::BloomWrongSize, Byz::StaleCookie, Byz::Unsolicited, Byz::BloomLoop, Byz::Normal, Byz::RefidLoop, Byz::HighStratum]
                } else {
                    [Byz::RefidLoop, Byz::BloomLoop, Byz::HighStratum, Byz::Normal, Byz::BloomWrongSize, Byz::StaleCookie, Byz::Unsolicited]
                };
                Role::Byzantine(kinds[weighted("cfg.byzkind", &[3, 3, 2, 2, 1, 1, 1])])
            };
            let mut ips = vec![ip_of(addr)];
            if matches!(role, Role::Daemon) && !is_root && chance("cfg.multihomed", 0.3) {
                ips.push(ip_of(addr + 256));
            }
            let local_stratum = if is_root { 1 } else { [16u8, 16, 8, 4, 3][weighted("cfg.localstratum", &[5, 3, 2, 1, 1])] };
            let mut sync = SynchronizationConfig::default();
            sync.local_stratum = local_stratum;
            let mgr = NtpManager::new(sync, Arc::from(ips.clone()));
            let clock = SimClock::new("node", epoch.wrapping_add(simntp::secs_to_fixed(0.001 * i as f64) as u64), 0.0, 0.0);
            let scfg = ServerConfig {
                denylist: FilterList { filter: vec![], action: FilterAction::Ignore },
                allowlist: FilterList { filter: vec!["0.0.0.0/0".parse().unwrap(), "::/0".parse().unwrap()], action: FilterAction::Ignore },
                rate_limiting_cache_size: 0,
                rate_limiting_cutoff: std::time::Duration::from_secs(0),
                require_nts: None,
                accepted_versions: vec![NtpVersion::V3, NtpVersion::V4, NtpVersion::V5],
            };
            let server = mgr.new_server(scfg, clock.clone(), KeySetProvider::new(1).get());
            // a filter built by the real BloomFilter from a random set of server ids (two halves united)
            let nids = 1 + choose("cfg.byzfilter.ids", 24) as usize;
            let byz_ids: Vec<ntp_proto::v5::ServerId> = (0..nids).map(|_| ntp_proto::v5::ServerId::new(&mut rand::thread_rng())).collect();
            let mut fa = ntp_proto::v5::BloomFilter::new();
            let mut fb = ntp_proto::v5::BloomFilter::new();
            for (k, id) in byz_ids.iter().enumerate() {
                if k % 2 == 0 { fa.add_id(id) } else { fb.add_id(id) }
            }
            let fu = ntp_proto::v5::BloomFilter::union([&fa, &fb].into_iter());
            check!(
                "C34",
                "no-false-negative-for-added-id",
                byz_ids.iter().all(|id| fu.contains_id(id)) && byz_ids.iter().enumerate().all(|(k, id)| if k % 2 == 0 { fa.contains_id(id) } else { fb.contains_id(id) }),
                "a filter built from {nids} ids does not report one of them"
            );
            let byz_filter = *fu.as_bytes();
            let pps = if matches!(role, Role::Daemon) && !is_root && !clean && chance("cfg.pps", 0.08) { Some(ClockId::new()) } else { None };
            let role_is_byz = matches!(role, Role::Byzantine(_));
            ev!("cfg node{i} addr={addr} role={} local_stratum={local_stratum} ips={} pps={}", match &role { Role::Daemon => "daemon".to_string(), Role::Byzantine(b) => format!("{b:?}"), Role::Absent => "absent".into() }, ips.len(), pps.is_some());
            nodes.push(Node {
                idx: i,
                addr,
                ips,
                role,
                mgr,
                server,
                clock,
                slots: vec![],
                local_stratum,
                pps,
                pref: 0,
                next_tick: choose("cfg.tickphase", 1000) * 1_000_000,
                filters: if matches!(role_is_byz, true) { vec![byz_filter] } else { vec![[0u8; 512]] },
                byz_filter,
                byz_ids,
                flip_after: if role_is_byz && chance("cfg.byz.flips", 0.6) { 2 + choose("cfg.byz.flipafter", 30) } else { 0 },
                served: 0,
                last_logged: (0, [0; 4]),
                ticks: 0,
            });
        }
        // an address nobody answers on
        let absent_addr = 10 + total as u32;
        // sources of the daemons
        for i in 0..ndaemons {
            let nsrc = 1 + choose("cfg.nsrc", 4) as usize;
            for s in 0..nsrc {
                // target: the stratum-1 server, another daemon (pairs / rings), a byzantine server, itself, nobody
                let pick = weighted("cfg.target", &[4, 4, 3, 1, 1]);
                let target = match pick {
                    0 => nodes[ndaemons].addr,
                    1 if ndaemons > 1 => {
                        // ring by default, random other daemon otherwise
                        let j = if chance("cfg.target.random", 0.5) { (i + 1 + choose("cfg.target.other", (ndaemons - 1) as u64) as usize) % ndaemons } else { (i + 1) % ndaemons };
                        nodes[j].addr
                    }
                    2 if nbyz > 0 => nodes[ndaemons + 1 + choose("cfg.target.byz", nbyz as u64) as usize].addr,
                    3 => {
                        fault("source-points-at-own-address");
                        nodes[i].addr
                    }
                    4 => {
                        fault("source-unreachable");
                        absent_addr
                    }
                    _ => nodes[ndaemons].addr,
                };
                let pvk = if c34 { weighted("cfg.pv.c34", &[1, 2, 6]) } else { weighted("cfg.pv", &[4, 2, 3]) };
                let pv = [ProtocolVersion::V4, ProtocolVersion::v4_upgrading_to_v5_with_default_tries(), ProtocolVersion::V5][pvk];
                let chunk = if pvk == 0 { 16 } else { [16u16, 4, 8, 32, 64, 128, 256, 512][if c34 { choose("cfg.chunk.c34", 8) as usize } else { weighted("cfg.chunk", &[6, 1, 1, 1, 1, 1, 1, 1]) }] };
                let lim = [(0u8, 4u8), (2, 6), (4, 6), (1, 1)][choose("cfg.limits", 4) as usize];
                let limits = PollIntervalLimits { min: PollInterval::from_byte(lim.0), max: PollInterval::from_byte(lim.1) };
                nodes[i].slots.push(Slot {
                    id: ClockId::new(),
                    target,
                    v5_capable: pvk != 0,
                    src: None,
                    spy: Spy::new(lim.0),
                    next_timer: Some(choose("cfg.srcstart", 3000) * 1_000_000),
                    last_send: None,
                    seq: 0,
                    accepted_seq: None,
                    measured: false,
                    m_stratum: 16,
                    m_refid: None,
                    chunk_versions: vec![],
                    pv,
                    chunk,
                    limits,
                    respawns: 0,
                });
                spawn_source(&mut nodes[i], s, pv, chunk, limits);
                ev!("cfg node{i} src{s} -> addr {target} {pv:?} chunk={chunk} limits={lim:?}");
            }
        }
        let _ = Role::Absent;
        // direct Bloom-filter clients (always for C34, sometimes otherwise)
        let nraw = if c34 { 1 + choose("cfg.nraw", 3) as usize } else if chance("cfg.raw", 0.3) { 1 } else { 0 };
        let raw_base = nodes.len();
        let mut raws: Vec<Raw> = vec![];
        for i in 0..nraw {
            let chunk = [16u16, 4, 8, 32, 64, 128, 256, 512][choose("cfg.raw.chunk", 8) as usize];
            // target: any serving node (daemon, root or byzantine)
            let target = nodes[choose("cfg.raw.target", nodes.len() as u64) as usize].addr;
            raws.push(Raw {
                addr: 200 + i as u32,
                target,
                rbf: ntp_proto::verif::system::RemoteBloomFilter::new(chunk).expect("valid chunk size"),
                chunk,
                next_timer: choose("cfg.raw.start", 2000) * 1_000_000,
                // fast polls against slow answers make stale answers common
                period: [1_000_000_000u64, 200_000_000, 50_000_000, 4_000_000_000][choose("cfg.raw.period", 4) as usize],
                seq: 0,
                outstanding: None,
                m_bytes: [0; 512],
                m_next: 0,
                m_filled: false,
                versions: vec![None; 512 / chunk as usize],
            });
            ev!("cfg direct-client{i} -> addr {target} chunk={chunk}");
        }

        let horizon = horizon_s * 1_000_000_000;
        loop {
            if simkit::out_of_budget() {
                break;
            }
            let mut t = net.next_time().unwrap_or(u64::MAX);
            for n in nodes.iter() {
                if matches!(n.role, Role::Daemon) {
                    t = t.min(n.next_tick);
                }
                for s in &n.slots {
                    if s.src.is_some() {
                        if let Some(x) = s.next_timer {
                            t = t.min(x);
                        }
                    }
                }
            }
            for r in raws.iter() {
                t = t.min(r.next_timer);
            }
            if t == u64::MAX || t > horizon {
                break;
            }
            advance_to(t).await;
            let now = simkit::now_ns().max(t);
            while let Some((_, d)) = net.pop_due(now) {
                if let Some(ri) = raws.iter().position(|r| r.addr == d.to) {
                    raw_deliver(&mut raws, ri, &nodes, &d);
                    continue;
                }
                let Some(ti) = nodes.iter().position(|n| n.addr == d.to) else { continue };
                match d.meta.kind {
                    Kind::Request { .. } => serve(&mut nodes, &mut net, &d, ti, now),
                    Kind::Resp { .. } => deliver(&mut nodes, d, ti),
                }
            }
            for ri in 0..raws.len() {
                if raws[ri].next_timer <= now && raws[ri].seq < 400 {
                    raw_timer(&mut raws, ri, raw_base, &mut net, now);
                } else if raws[ri].next_timer <= now {
                    raws[ri].next_timer = u64::MAX;
                }
            }
            for ni in 0..nodes.len() {
                for si in 0..nodes[ni].slots.len() {
                    if nodes[ni].slots[si].src.is_some() && nodes[ni].slots[si].next_timer.map(|x| x <= now).unwrap_or(false) {
                        on_timer(&mut nodes, &mut net, ni, si, now);
                    }
                }
                for si in 0..nodes[ni].slots.len() {
                    if nodes[ni].slots[si].src.is_none() && nodes[ni].slots[si].respawns < 3 {
                        // the daemon respawns a source that asked for a reset
                        let (pv, chunk, limits) = (nodes[ni].slots[si].pv, nodes[ni].slots[si].chunk, nodes[ni].slots[si].limits);
                        let slot = &mut nodes[ni].slots[si];
                        slot.respawns += 1;
                        slot.seq = 0;
                        slot.accepted_seq = None;
                        slot.measured = false;
                        slot.m_stratum = 16;
                        slot.m_refid = None;
                        slot.last_send = None;
                        slot.spy = Spy::new(limits.min.as_byte());
                        slot.next_timer = Some(now + 1_000_000_000);
                        spawn_source(&mut nodes[ni], si, pv, chunk, limits);
                    }
                }
                if matches!(nodes[ni].role, Role::Daemon) && nodes[ni].next_tick <= now {
                    tick(&mut nodes, ni);
                    nodes[ni].next_tick += 1_000_000_000;
                }
            }
        }
        for n in &nodes {
            for s in &n.slots {
                let _ = s.v5_capable;
            }
        }
    });
    ntp_proto::verif::clear();
}
