//! W3 — NTS key-exchange world (DESIGN.md §4 "W3", §5 C28-C30).
//!
//! * C28 / C29: the real `ntp_proto::KeyExchangeClient` / `KeyExchangeServer` over real
//!   rustls on the two ends of a `simkit::stream::duplex`, client and server as separate
//!   multiplexer tasks, plus byzantine peers speaking hand-built records over real TLS.
//! * C30: fault enumeration over where a plaintext NTS-KE byte stream is cut / fragmented,
//!   driving the real record / request / response parsers directly over `SimStream`.

mod degen;
mod ke;
mod parse;
mod raw;
mod tls;

use simkit::batch::{cli_main, Level, Property, WorldDef};

fn run() {
    simntp::reset_hooks();
    match simkit::focus() {
        "C30" => parse::run(),
        f => ke::run(f),
    }
    ntp_proto::verif::clear();
}

fn main() {
    // rustls-platform-verifier (used by the real KeyExchangeClient) loads the platform trust
    // store for every client it builds; point it at the test CA so that this is fast and
    // independent of the machine (the test CA is passed as an extra root anyway).
    // SAFETY: single-threaded at this point.
    unsafe {
        std::env::set_var("SSL_CERT_FILE", tls::CA_PEM_PATH);
        std::env::remove_var("SSL_CERT_DIR");
    }
    let tls_assumptions: &'static [&'static str] = &[
        "TLS randomness (aws-lc) is not seeded: it changes ciphertext bytes only; keys, cookies and ciphertext are never logged and no simulator decision depends on them",
        "certificate validation reads the real wall clock (rustls): the repo's test certificate (ntp-proto/test-keys/end.pem) is valid until 2027-02-27",
        "the platform trust store is replaced by the repo's test CA via SSL_CERT_FILE",
    ];
    cli_main(WorldDef {
        name: "w3",
        run,
        properties: vec![
            Property {
                id: "C28",
                level: Level::Exploration,
                quick_runs: 200_000,
                thorough_runs: 1_500_000,
                quick_wall_s: 60.0,
                thorough_wall_s: 600.0,
                event_cap: 2_000,
                enumerate: None,
                rule: "one run = one TLS key exchange over a SimStream duplex under seeded chunking / cut faults and task interleaving: (A) real client vs real server, (B) observing client with arbitrary preference lists vs real server, (C) real client vs byzantine server with a hand-built response",
                assumptions: tls_assumptions,
            },
            Property {
                id: "C29",
                level: Level::Exploration,
                quick_runs: 150_000,
                thorough_runs: 1_000_000,
                quick_wall_s: 60.0,
                thorough_wall_s: 600.0,
                event_cap: 4_000,
                enumerate: None,
                rule: "one run = 1-3 concurrent TLS connections of byzantine pool clients (scripted first request + follow-ups) against one real KeyExchangeServer sharing 0-2 keep-alive slots, under seeded chunking / cut faults and task interleaving",
                assumptions: tls_assumptions,
            },
            Property {
                id: "C30",
                level: Level::FaultEnumeration,
                quick_runs: 0,
                thorough_runs: 0,
                quick_wall_s: 85.0,
                thorough_wall_s: 1500.0,
                event_cap: 1_000,
                enumerate: Some(parse::n_cases),
                rule: "one run = one (message, parser, chunking class) triple of the enumerated space; inside the run the message is delivered with EOF (or reset) at EVERY byte offset (messages > 2048 bytes: every offset near the start and around the 4096 cap, strided in between) and once uncut; messages = everything the real client/server serialise in W3 + every record type + boundary sizes 4095..4100 + oversize (to 3x4096) + endless record streams + the systematic well-framed degenerate-content family (degen.rs) + a fixed set of mutated variants per message",
                assumptions: &[
                    "the fault position (cut offset x chunking class) is enumerated completely for the listed messages; the message space itself is sampled (real messages + mutated variants), not all byte streams",
                    "plaintext seam: the parsers are driven directly over SimStream (they are generic over AsyncRead); the TLS layer in front of them is exercised in the C28/C29 runs",
                ],
            },
        ],
        real_components: &[
            "ntp_proto::KeyExchangeClient::exchange_keys (over real rustls / tokio-rustls, aws-lc)",
            "ntp_proto::KeyExchangeServer::{handle_connection, handle_longterm}",
            "ntp_proto::nts::messages::{Request, KeyExchangeResponse, ErrorResponse, NoOverlapResponse, SupportsResponse} parse / serialize",
            "ntp_proto::nts::record::NtsRecord parse / serialize",
            "ntp_proto::KeySet cookie encode / decode, KeySetProvider",
        ],
        stub_components: &[
            "TCP -> simkit::stream::duplex (SimStream: seeded chunking, EOF / reset at offset k, write errors, byte counters)",
            "ntpd's key-exchange accept loop (semaphore permits, timeouts) -> scripted tasks with a counter-backed permit",
            "byzantine peers: plain rustls connector / acceptor speaking hand-built records",
        ],
    })
}
