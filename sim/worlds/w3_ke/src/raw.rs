//! Independent (simulator-side) NTS-KE record codec, written from RFC 8915 section 4:
//! every record is `u16 type (bit 15 = critical) | u16 body length | body`.
//! Used by the byzantine peers to hand-build messages and by the oracles to read
//! what the real code sent without going through the real parser.

use tokio::io::{AsyncRead, AsyncReadExt};

pub const CRIT: u16 = 0x8000;

pub const T_EOM: u16 = 0;
pub const T_NEXT_PROTOCOL: u16 = 1;
pub const T_ERROR: u16 = 2;
pub const T_WARNING: u16 = 3;
pub const T_AEAD: u16 = 4;
pub const T_COOKIE: u16 = 5;
pub const T_SERVER: u16 = 6;
pub const T_PORT: u16 = 7;
pub const T_KEEPALIVE: u16 = 8;
pub const T_SUP_PROTOCOLS: u16 = 9;
pub const T_SUP_ALGORITHMS: u16 = 10;
pub const T_FIXED_KEY: u16 = 12;
pub const T_DENY: u16 = 13;
pub const T_AUTH: u16 = 14;

pub const ERR_BAD_REQUEST: u16 = 1;

#[derive(Clone, Debug, PartialEq, Eq)]
pub struct RawRec {
    /// record type including the critical bit
    pub ty: u16,
    pub body: Vec<u8>,
}

impl RawRec {
    pub fn new(ty: u16, body: &[u8]) -> RawRec {
        RawRec { ty, body: body.to_vec() }
    }
    pub fn kind(&self) -> u16 {
        self.ty & 0x7fff
    }
    pub fn u16s(&self) -> Option<Vec<u16>> {
        if self.body.len() % 2 != 0 {
            return None;
        }
        Some(self.body.chunks(2).map(|c| u16::from_be_bytes([c[0], c[1]])).collect())
    }
    pub fn encode(&self, out: &mut Vec<u8>) {
        out.extend_from_slice(&self.ty.to_be_bytes());
        out.extend_from_slice(&(self.body.len() as u16).to_be_bytes());
        out.extend_from_slice(&self.body);
    }
}

pub fn u16_body(ids: &[u16]) -> Vec<u8> {
    ids.iter().flat_map(|v| v.to_be_bytes()).collect()
}

pub fn rec_u16s(ty: u16, ids: &[u16]) -> RawRec {
    RawRec { ty, body: u16_body(ids) }
}

pub fn eom() -> RawRec {
    RawRec { ty: CRIT | T_EOM, body: vec![] }
}

pub fn encode_all(recs: &[RawRec]) -> Vec<u8> {
    let mut out = vec![];
    for r in recs {
        r.encode(&mut out);
    }
    out
}

/// Split a byte string into records; returns the records and the number of bytes
/// covered by complete records.
pub fn split(bytes: &[u8]) -> (Vec<RawRec>, usize) {
    let mut out = vec![];
    let mut pos = 0;
    while bytes.len() - pos >= 4 {
        let ty = u16::from_be_bytes([bytes[pos], bytes[pos + 1]]);
        let len = u16::from_be_bytes([bytes[pos + 2], bytes[pos + 3]]) as usize;
        if bytes.len() - pos - 4 < len {
            break;
        }
        out.push(RawRec { ty, body: bytes[pos + 4..pos + 4 + len].to_vec() });
        pos += 4 + len;
    }
    (out, pos)
}

#[derive(Clone, Copy, Debug, PartialEq, Eq)]
pub enum End {
    /// an end-of-message record was read
    Eom,
    /// clean end of stream at a record boundary
    Eof,
    /// end of stream / error inside a record
    Cut,
    /// more than the sanity cap was read without an end-of-message record
    TooLong,
}

/// Read records until end-of-message / end of stream (at most `cap` bytes).
pub async fn read_message(io: &mut (impl AsyncRead + Unpin), cap: usize) -> (Vec<RawRec>, End) {
    let mut recs = vec![];
    let mut total = 0usize;
    loop {
        let mut head = [0u8; 4];
        let mut got = 0;
        while got < 4 {
            match io.read(&mut head[got..]).await {
                Ok(0) => return (recs, if got == 0 { End::Eof } else { End::Cut }),
                Ok(n) => got += n,
                Err(_) => return (recs, End::Cut),
            }
        }
        let ty = u16::from_be_bytes([head[0], head[1]]);
        let len = u16::from_be_bytes([head[2], head[3]]) as usize;
        let mut body = vec![0u8; len];
        if io.read_exact(&mut body).await.is_err() {
            return (recs, End::Cut);
        }
        total += 4 + len;
        let is_eom = ty & 0x7fff == T_EOM;
        recs.push(RawRec { ty, body });
        if is_eom {
            return (recs, End::Eom);
        }
        if total > cap {
            return (recs, End::TooLong);
        }
    }
}
