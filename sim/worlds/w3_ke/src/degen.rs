//! Systematic "well-framed, degenerate content" message family for the C30 enumeration.
//!
//! Every message here is hand-built with the simulator's own record encoder (`raw.rs`),
//! never with the serialisers under test. Framing is always valid (every length field is
//! exact); what varies is the CONTENT at record level, for every request / response kind:
//!   a. every list-carrying record with 0, 1, 2 and many ids (and the 0/1/2 cross product
//!      of the NextProtocol x AeadAlgorithm lists);
//!   b. every record duplicated (adjacent and at the end);
//!   c. the records in every order (all permutations up to 4 records; rotations, adjacent
//!      swaps and reversal beyond);
//!   d. every record missing, one at a time (including the end-of-message record);
//!   e. a zero-length body for every record type: alone, replacing each template record,
//!      and inserted at the front / before the end of every template;
//!   f. critical-bit variants (each record toggled, all toggled);
//!   g. a typical record of every type inserted into every kind of message (the records
//!      of the other kinds inside an otherwise valid message).
//! The family is a fixed function of nothing (no seed): it is part of the enumerated space.

use std::collections::BTreeSet;
use std::sync::OnceLock;

use crate::parse::Msg;
use crate::raw::{self, RawRec, CRIT};

fn ids(n: usize, first: &[u16]) -> Vec<u16> {
    (0..n).map(|i| first.get(i).copied().unwrap_or(0x4000 + i as u16)).collect()
}

fn cookie() -> Vec<u8> {
    (0..100u8).map(|i| i.wrapping_mul(37).wrapping_add(11)).collect()
}

fn keys(n: usize) -> Vec<u8> {
    (0..2 * n).map(|i| i as u8).collect()
}

/// (name, records without the end-of-message record)
fn templates() -> Vec<(&'static str, Vec<RawRec>)> {
    let np = |v: &[u16]| raw::rec_u16s(CRIT | raw::T_NEXT_PROTOCOL, v);
    let aead = |v: &[u16]| raw::rec_u16s(CRIT | raw::T_AEAD, v);
    let auth = || RawRec::new(raw::T_AUTH, b"tokA");
    vec![
        ("req-ke", vec![np(&[0x8001, 0]), aead(&[17, 15])]),
        ("req-ke-deny", vec![np(&[0]), aead(&[17, 15]), RawRec::new(raw::T_DENY, b"deny.example")]),
        ("req-fixed-256", vec![auth(), RawRec::new(CRIT | raw::T_FIXED_KEY, &keys(32)), np(&[0]), aead(&[15])]),
        ("req-fixed-512-keep", vec![auth(), RawRec::new(CRIT | raw::T_FIXED_KEY, &keys(64)), np(&[0x8001]), aead(&[17]), RawRec::new(raw::T_KEEPALIVE, &[])]),
        ("req-support", vec![auth(), RawRec::new(CRIT | raw::T_SUP_PROTOCOLS, &[]), RawRec::new(CRIT | raw::T_SUP_ALGORITHMS, &[])]),
        ("req-support-keep", vec![auth(), RawRec::new(CRIT | raw::T_SUP_ALGORITHMS, &[]), RawRec::new(raw::T_KEEPALIVE, &[])]),
        (
            "resp-ke",
            vec![
                np(&[0]),
                aead(&[15]),
                RawRec::new(raw::T_COOKIE, &cookie()),
                RawRec::new(raw::T_COOKIE, &cookie()),
                RawRec::new(CRIT | raw::T_SERVER, b"ntp.example.org"),
                RawRec::new(CRIT | raw::T_PORT, &[0x11, 0x6c]),
            ],
        ),
        ("resp-ke-keep", vec![np(&[0x8001]), aead(&[17]), RawRec::new(raw::T_COOKIE, &cookie()), RawRec::new(raw::T_KEEPALIVE, &[])]),
        ("resp-error", vec![raw::rec_u16s(CRIT | raw::T_ERROR, &[1])]),
        ("resp-warning", vec![raw::rec_u16s(CRIT | raw::T_WARNING, &[1])]),
        ("resp-no-overlap-protocol", vec![np(&[])]),
        ("resp-no-overlap-algorithm", vec![np(&[0]), aead(&[])]),
        (
            "resp-supports",
            vec![
                RawRec::new(CRIT | raw::T_SUP_ALGORITHMS, &[0, 15, 0, 32, 0, 17, 0, 64]),
                raw::rec_u16s(CRIT | raw::T_SUP_PROTOCOLS, &[0, 0x8001]),
            ],
        ),
    ]
}

/// A typical, well-formed record of every type (0..=15; 11 and 15 are unassigned).
fn typical_records() -> Vec<RawRec> {
    vec![
        RawRec::new(CRIT | raw::T_EOM, &[]),
        raw::rec_u16s(CRIT | raw::T_NEXT_PROTOCOL, &[0]),
        raw::rec_u16s(CRIT | raw::T_ERROR, &[1]),
        raw::rec_u16s(CRIT | raw::T_WARNING, &[1]),
        raw::rec_u16s(CRIT | raw::T_AEAD, &[15]),
        RawRec::new(raw::T_COOKIE, &cookie()),
        RawRec::new(CRIT | raw::T_SERVER, b"srv.example"),
        RawRec::new(CRIT | raw::T_PORT, &[0, 123]),
        RawRec::new(raw::T_KEEPALIVE, &[]),
        raw::rec_u16s(CRIT | raw::T_SUP_PROTOCOLS, &[0]),
        RawRec::new(CRIT | raw::T_SUP_ALGORITHMS, &[0, 15, 0, 32]),
        RawRec::new(11, b"unassigned-11"),
        RawRec::new(CRIT | raw::T_FIXED_KEY, &keys(32)),
        RawRec::new(raw::T_DENY, b"deny.example"),
        RawRec::new(raw::T_AUTH, b"tokA"),
        RawRec::new(CRIT | 15, b"unassigned-critical-15"),
    ]
}

fn is_list(kind: u16) -> Option<usize> {
    // entry size in bytes
    match kind {
        raw::T_NEXT_PROTOCOL | raw::T_AEAD | raw::T_SUP_PROTOCOLS => Some(2),
        raw::T_SUP_ALGORITHMS => Some(4),
        _ => None,
    }
}

fn list_body(kind: u16, n: usize) -> Vec<u8> {
    match kind {
        raw::T_NEXT_PROTOCOL => raw::u16_body(&ids(n, &[0, 0x8001])),
        raw::T_AEAD => raw::u16_body(&ids(n, &[15, 17])),
        raw::T_SUP_PROTOCOLS => raw::u16_body(&ids(n, &[0, 0x8001])),
        _ => {
            let mut b = vec![];
            for (i, id) in ids(n, &[15, 17]).iter().enumerate() {
                b.extend(id.to_be_bytes());
                b.extend((if i == 0 { 32u16 } else { 64 }).to_be_bytes());
            }
            b
        }
    }
}

fn permutations(n: usize) -> Vec<Vec<usize>> {
    fn rec(cur: &mut Vec<usize>, used: &mut Vec<bool>, n: usize, out: &mut Vec<Vec<usize>>) {
        if cur.len() == n {
            out.push(cur.clone());
            return;
        }
        for i in 0..n {
            if !used[i] {
                used[i] = true;
                cur.push(i);
                rec(cur, used, n, out);
                cur.pop();
                used[i] = false;
            }
        }
    }
    let mut out = vec![];
    rec(&mut vec![], &mut vec![false; n], n, &mut out);
    out
}

fn build() -> Vec<Msg> {
    let mut out: Vec<Msg> = vec![];
    let mut seen: BTreeSet<Vec<u8>> = BTreeSet::new();
    let mut push = |name: String, recs: &[RawRec], eom: bool| {
        let mut all = recs.to_vec();
        if eom {
            all.push(raw::eom());
        }
        let bytes = raw::encode_all(&all);
        if seen.insert(bytes.clone()) {
            out.push(Msg { name: format!("degen-{name}"), bytes, endless: false });
        }
    };
    let typical = typical_records();
    // e1. a zero-length record of every type alone (and with the other critical bit)
    for t in 0u16..16 {
        for crit in [0, CRIT] {
            push(format!("alone-empty-type{t}-crit{}", crit != 0), &[RawRec::new(crit | t, &[])], true);
        }
    }
    for (tn, tpl) in templates() {
        push(format!("{tn}"), &tpl, true);
        // a. list sizes
        let list_pos: Vec<usize> = (0..tpl.len()).filter(|i| is_list(tpl[*i].kind()).is_some()).collect();
        for &i in &list_pos {
            for n in [0usize, 1, 2, 3, 40, 400] {
                let mut r = tpl.clone();
                r[i].body = list_body(r[i].kind(), n);
                push(format!("{tn}-list[{i}]x{n}"), &r, true);
            }
            // an odd number of bytes in a list
            let mut r = tpl.clone();
            r[i].body = vec![0; is_list(r[i].kind()).unwrap() + 1];
            push(format!("{tn}-list[{i}]-odd"), &r, true);
        }
        if list_pos.len() >= 2 {
            for n0 in [0usize, 1, 2] {
                for n1 in [0usize, 1, 2] {
                    let mut r = tpl.clone();
                    r[list_pos[0]].body = list_body(r[list_pos[0]].kind(), n0);
                    r[list_pos[1]].body = list_body(r[list_pos[1]].kind(), n1);
                    push(format!("{tn}-lists-{n0}x{n1}"), &r, true);
                }
            }
        }
        // b. duplicated records
        for i in 0..tpl.len() {
            let mut r = tpl.clone();
            r.insert(i, tpl[i].clone());
            push(format!("{tn}-dup[{i}]-adjacent"), &r, true);
            let mut r = tpl.clone();
            r.push(tpl[i].clone());
            push(format!("{tn}-dup[{i}]-at-end"), &r, true);
            // duplicated with different content
            let mut r = tpl.clone();
            let mut other = tpl[i].clone();
            if let Some(b) = other.body.last_mut() {
                *b ^= 1;
            }
            r.push(other);
            push(format!("{tn}-dup[{i}]-different"), &r, true);
        }
        // two end-of-message records, and records after the end-of-message record
        {
            let mut r = tpl.clone();
            r.push(raw::eom());
            push(format!("{tn}-double-eom"), &r, true);
            let mut r = vec![raw::eom()];
            r.extend(tpl.clone());
            push(format!("{tn}-eom-first"), &r, true);
        }
        // c. every order
        if tpl.len() <= 4 {
            for p in permutations(tpl.len()) {
                let r: Vec<RawRec> = p.iter().map(|i| tpl[*i].clone()).collect();
                push(format!("{tn}-order{p:?}"), &r, true);
            }
        } else {
            for k in 1..tpl.len() {
                let mut r = tpl.clone();
                r.rotate_left(k);
                push(format!("{tn}-rotate{k}"), &r, true);
            }
            for k in 0..tpl.len() - 1 {
                let mut r = tpl.clone();
                r.swap(k, k + 1);
                push(format!("{tn}-swap{k}"), &r, true);
            }
            let mut r = tpl.clone();
            r.reverse();
            push(format!("{tn}-reversed"), &r, true);
        }
        // d. missing records one at a time
        for i in 0..tpl.len() {
            let mut r = tpl.clone();
            r.remove(i);
            push(format!("{tn}-missing[{i}]"), &r, true);
        }
        push(format!("{tn}-missing-eom"), &tpl, false);
        push(format!("{tn}-only-eom"), &[], true);
        // e2. each template record with a zero-length body / a one-byte body
        for i in 0..tpl.len() {
            let mut r = tpl.clone();
            r[i].body = vec![];
            push(format!("{tn}-empty-body[{i}]"), &r, true);
            let mut r = tpl.clone();
            r[i].body = vec![0];
            push(format!("{tn}-one-byte-body[{i}]"), &r, true);
        }
        // e3. a zero-length record of every type at the front / before the end
        for t in 0u16..16 {
            let z = RawRec::new(typical[t as usize].ty, &[]);
            let mut r = vec![z.clone()];
            r.extend(tpl.clone());
            push(format!("{tn}+empty-type{t}-front"), &r, true);
            let mut r = tpl.clone();
            r.push(z);
            push(format!("{tn}+empty-type{t}-back"), &r, true);
        }
        // f. critical-bit variants
        for i in 0..tpl.len() {
            let mut r = tpl.clone();
            r[i].ty ^= CRIT;
            push(format!("{tn}-crit-toggled[{i}]"), &r, true);
        }
        {
            let mut r = tpl.clone();
            for x in r.iter_mut() {
                x.ty ^= CRIT;
            }
            push(format!("{tn}-crit-toggled-all"), &r, true);
            let mut all = r.clone();
            all.push(RawRec::new(raw::T_EOM, &[]));
            push(format!("{tn}-crit-toggled-all+eom"), &all, false);
        }
        // g. a typical record of every type inside this kind of message
        for (t, rec) in typical.iter().enumerate() {
            if t == 0 {
                continue;
            }
            let mut r = tpl.clone();
            r.push(rec.clone());
            push(format!("{tn}+typical-type{t}-back"), &r, true);
            let mut r = vec![rec.clone()];
            r.extend(tpl.clone());
            push(format!("{tn}+typical-type{t}-front"), &r, true);
        }
    }
    out
}

pub fn corpus() -> &'static [Msg] {
    static C: OnceLock<Vec<Msg>> = OnceLock::new();
    C.get_or_init(build)
}
