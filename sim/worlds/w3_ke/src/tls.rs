//! TLS plumbing for the byzantine peers (a plain rustls connector / acceptor with the
//! repo's test certificates) and the independent key-export model.
//!
//! TLS randomness (aws-lc) is not seeded: nothing derived from TLS bytes (keys,
//! cookies, ciphertext) may ever reach the event log.

use std::sync::{Arc, OnceLock};

use ntp_proto::tls_utils::{self, Certificate, ClientConnection, PrivateKey, RootCertStore, ServerConnection, TLS13};
use tokio_rustls::{TlsAcceptor, TlsConnector};

pub const CA_PEM_PATH: &str = concat!(env!("CARGO_MANIFEST_DIR"), "/../../../repo/ntp-proto/test-keys/testca.pem");
const CA_PEM: &[u8] = include_bytes!(concat!(env!("CARGO_MANIFEST_DIR"), "/../../../repo/ntp-proto/test-keys/testca.pem"));
const CHAIN_PEM: &[u8] = include_bytes!(concat!(env!("CARGO_MANIFEST_DIR"), "/../../../repo/ntp-proto/test-keys/end.fullchain.pem"));
const KEY_PEM: &[u8] = include_bytes!(concat!(env!("CARGO_MANIFEST_DIR"), "/../../../repo/ntp-proto/test-keys/end.key"));

struct Pki {
    ca: Arc<[Certificate]>,
    chain: Vec<Certificate>,
    key: PrivateKey,
}

fn pki() -> &'static Pki {
    static PKI: OnceLock<Pki> = OnceLock::new();
    PKI.get_or_init(|| Pki {
        ca: tls_utils::pemfile::certs(&mut &CA_PEM[..]).collect::<Result<Arc<_>, _>>().expect("test ca"),
        chain: tls_utils::pemfile::certs(&mut &CHAIN_PEM[..]).collect::<Result<Vec<_>, _>>().expect("test chain"),
        key: tls_utils::pemfile::private_key(&mut &KEY_PEM[..]).expect("test key"),
    })
}

pub fn ca_certs() -> Arc<[Certificate]> {
    pki().ca.clone()
}

pub fn server_chain() -> Vec<Certificate> {
    pki().chain.clone()
}

pub fn server_key() -> PrivateKey {
    pki().key.clone_key()
}

/// A fresh connector per run (no session cache shared between runs).
pub fn byz_connector() -> TlsConnector {
    let mut roots = RootCertStore::empty();
    for c in pki().ca.iter() {
        roots.add(c.clone()).expect("add test root");
    }
    let mut cfg = tls_utils::client_config_builder_with_protocol_versions(&[&TLS13])
        .with_root_certificates(roots)
        .with_no_client_auth();
    cfg.alpn_protocols = vec![b"ntske/1".to_vec()];
    TlsConnector::from(Arc::new(cfg))
}

/// A fresh acceptor per run.
pub fn byz_acceptor() -> TlsAcceptor {
    let mut cfg = tls_utils::server_config_builder_with_protocol_versions(&[&TLS13])
        .with_no_client_auth()
        .with_single_cert(server_chain(), server_key())
        .expect("server cert");
    cfg.alpn_protocols = vec![b"ntske/1".to_vec()];
    TlsAcceptor::from(Arc::new(cfg))
}

// ---- independent model of the key export (RFC 8915 section 5.1) ----

/// Key length of the AEAD algorithm (RFC 5297: AES-SIV-CMAC-256 has 32-byte keys,
/// AES-SIV-CMAC-512 has 64-byte keys); `None` for algorithms this model does not know.
pub fn key_len(algorithm: u16) -> Option<usize> {
    match algorithm {
        15 => Some(32),
        17 => Some(64),
        _ => None,
    }
}

const LABEL: &[u8] = b"EXPORTER-network-time-security";

fn context(protocol: u16, algorithm: u16, s2c: bool) -> [u8; 5] {
    let p = protocol.to_be_bytes();
    let a = algorithm.to_be_bytes();
    [p[0], p[1], a[0], a[1], if s2c { 1 } else { 0 }]
}

/// (c2s, s2c) as exported from the client's end of the TLS session.
pub fn export_client(conn: &ClientConnection, protocol: u16, algorithm: u16) -> Option<(Vec<u8>, Vec<u8>)> {
    let n = key_len(algorithm)?;
    let c2s = conn.export_keying_material(vec![0u8; n], LABEL, Some(&context(protocol, algorithm, false))).ok()?;
    let s2c = conn.export_keying_material(vec![0u8; n], LABEL, Some(&context(protocol, algorithm, true))).ok()?;
    Some((c2s, s2c))
}

/// (c2s, s2c) as exported from the server's end of the TLS session.
pub fn export_server(conn: &ServerConnection, protocol: u16, algorithm: u16) -> Option<(Vec<u8>, Vec<u8>)> {
    let n = key_len(algorithm)?;
    let c2s = conn.export_keying_material(vec![0u8; n], LABEL, Some(&context(protocol, algorithm, false))).ok()?;
    let s2c = conn.export_keying_material(vec![0u8; n], LABEL, Some(&context(protocol, algorithm, true))).ok()?;
    Some((c2s, s2c))
}
