//! Key-exchange scenarios over real TLS (C28, C29): the real `KeyExchangeClient` /
//! `KeyExchangeServer` on the two ends of a `simkit::stream::duplex`, each as its own
//! multiplexer task, plus byzantine peers (a plain rustls connector / acceptor that
//! speaks hand-built records).
//!
//! Nothing derived from TLS bytes is logged (keys, cookies, ciphertext): only ids,
//! counts, lengths of plaintext messages and error kinds.

use std::cell::{Cell, RefCell};
use std::rc::Rc;
use std::sync::Arc;
use std::time::Duration;

use ntp_proto::tls_utils::ServerName;
use ntp_proto::verif::nts::{self as vn, Nts};
use ntp_proto::{
    KeyExchangeClient, KeyExchangeServer, KeySet, KeySetProvider, NtpVersion, NtsClientConfig, NtsError, NtsServerConfig,
    ProtocolVersion,
};
use simkit::stream::{duplex, PipeProbe, StreamCfg};
use simkit::{chance, check, choose, ev, exec, fault, probe, weighted};
use tokio::io::AsyncWriteExt;
use tokio::sync::oneshot;

use crate::raw::{self, End, RawRec, CRIT};
use crate::tls;

const P_V4: u16 = 0;
const P_V5: u16 = 0x8001;

fn err_name(e: &NtsError) -> String {
    match e {
        NtsError::IO(e) => format!("IO:{:?}", e.kind()),
        NtsError::Tls(_) => "Tls".to_string(),
        NtsError::Dns(_) => "Dns".to_string(),
        other => format!("{other:?}"),
    }
}

// ---------------------------------------------------------------------------
// model (from the statement)
// ---------------------------------------------------------------------------

/// NTS next-protocol ids the server accepts, from its accepted NTP versions.
fn accepted_ids(accepted: &[NtpVersion]) -> Vec<u16> {
    let mut out = vec![];
    for v in accepted {
        match v {
            NtpVersion::V4 => out.push(P_V4),
            NtpVersion::V5 => out.push(P_V5),
            NtpVersion::V3 => {}
        }
    }
    out
}

fn first_mutual_protocol(client: &[u16], accepted: &[u16]) -> Option<u16> {
    client.iter().copied().find(|p| accepted.contains(p))
}

/// The server supports AEAD_AES_SIV_CMAC_256 (15) and AEAD_AES_SIV_CMAC_512 (17).
fn first_supported_algorithm(client: &[u16]) -> Option<u16> {
    client.iter().copied().find(|a| *a == 15 || *a == 17)
}

fn protocol_of_ntp_version(v: u8) -> u16 {
    if v == 5 { P_V5 } else { P_V4 }
}

// ---------------------------------------------------------------------------
// swarm configuration
// ---------------------------------------------------------------------------

struct ServerCfg {
    accepted: Vec<NtpVersion>,
    name: Option<String>,
    port: Option<u16>,
    tokens: Vec<String>,
}

const TOKEN_POOL: &[&str] = &["tokA", "pool-token-B-0123456789", "x", ""];

fn draw_server_cfg(pool: bool) -> ServerCfg {
    use NtpVersion::{V3, V4, V5};
    const SETS: &[&[NtpVersion]] = &[
        &[V4],
        &[V5],
        &[V4, V5],
        &[V5, V4],
        &[V3, V4],
        &[V3],
        &[],
        &[V4, V4, V5],
        &[V5, V3, V4],
        &[V3, V5],
    ];
    let accepted = SETS[choose("srv.accepted", SETS.len() as u64) as usize].to_vec();
    let name = match choose("srv.name", 3) {
        0 => None,
        1 => Some("ntp.example.org".to_string()),
        _ => Some("time.sim".to_string()),
    };
    let port = match choose("srv.port", 4) {
        0 => None,
        1 => Some(123),
        2 => Some(4460),
        _ => Some(0),
    };
    let ntok = if pool { weighted("srv.tokens", &[2, 4, 2, 1]) } else { choose("srv.tokens", 2) as usize };
    let mut tokens = vec![];
    for _ in 0..ntok {
        let t = TOKEN_POOL[choose("srv.token", TOKEN_POOL.len() as u64) as usize];
        // the empty token only rarely
        let t = if t.is_empty() && !chance("srv.token.empty", 0.3) { "tokA" } else { t };
        tokens.push(t.to_string());
    }
    ev!(
        "server-config accepted={:?} name={:?} port={:?} tokens={:?}",
        accepted.iter().map(|v| v.as_u8()).collect::<Vec<_>>(),
        name,
        port,
        tokens
    );
    ServerCfg { accepted, name, port, tokens }
}

fn make_server(cfg: &ServerCfg) -> KeyExchangeServer {
    KeyExchangeServer::new(NtsServerConfig {
        certificate_chain: tls::server_chain(),
        private_key: tls::server_key(),
        accepted_versions: cfg.accepted.clone(),
        server: cfg.name.clone(),
        port: cfg.port,
        pool_authentication_tokens: cfg.tokens.clone(),
    })
    .expect("KeyExchangeServer::new")
}

fn make_keyset() -> Arc<KeySet> {
    let mut provider = KeySetProvider::new(choose("keyset.history", 3) as usize);
    for _ in 0..choose("keyset.rotations", 3) {
        provider.rotate();
    }
    provider.get()
}

fn draw_dir() -> StreamCfg {
    const PS: [f64; 3] = [0.0, 0.15, 0.6];
    const CHUNKS: [usize; 6] = [0, 0, 1, 3, 17, 200];
    let mut cfg = StreamCfg {
        short_read_p: PS[choose("io.short-read", 3) as usize],
        short_write_p: PS[choose("io.short-write", 3) as usize],
        max_read_chunk: CHUNKS[choose("io.max-chunk", 6) as usize],
        pending_p: [0.0, 0.0, 0.2][choose("io.pending", 3) as usize],
        ..StreamCfg::default()
    };
    match weighted("io.cut", &[6, 1, 1, 1]) {
        0 => {}
        1 => cfg.eof_after = Some(choose("io.cut.at", 7000) as usize),
        2 => cfg.reset_after = Some(choose("io.cut.at", 7000) as usize),
        _ => cfg.write_error_after = Some(choose("io.cut.at", 7000) as usize),
    }
    cfg
}

#[derive(Clone)]
struct Faults {
    off: bool,
}

impl Faults {
    fn draw() -> Faults {
        // false (benign) = the fault-free quarter of the batch
        let on = chance("faults.on", 0.75);
        ev!("stream-faults {}", if on { "on" } else { "off" });
        Faults { off: !on }
    }
    fn pair(&self) -> (StreamCfg, StreamCfg) {
        if self.off {
            (StreamCfg::default(), StreamCfg::default())
        } else {
            let a = draw_dir();
            let b = draw_dir();
            ev!(
                "stream c2s: chunk={} sr={} sw={} pend={} eof={:?} reset={:?} werr={:?} | s2c: chunk={} sr={} sw={} pend={} eof={:?} reset={:?} werr={:?}",
                a.max_read_chunk, a.short_read_p, a.short_write_p, a.pending_p, a.eof_after, a.reset_after, a.write_error_after,
                b.max_read_chunk, b.short_read_p, b.short_write_p, b.pending_p, b.eof_after, b.reset_after, b.write_error_after
            );
            (a, b)
        }
    }
}

/// Did a cutting fault (eof / reset / write error) actually fire on this connection?
fn cut_fired_since(before: u64) -> bool {
    cut_count() > before
}

fn cut_count() -> u64 {
    simkit::with(|s| {
        ["stream-eof-at-k", "stream-reset", "stream-write-error"]
            .iter()
            .map(|k| s.faults.get(k).copied().unwrap_or(0))
            .sum()
    })
}

/// Wait for all tasks (simulated 60 s limit so that a deadlock ends the run).
async fn join(rxs: Vec<oneshot::Receiver<()>>) -> bool {
    let all = async {
        for rx in rxs {
            let _ = rx.await;
        }
    };
    match tokio::time::timeout(Duration::from_secs(60), all).await {
        Ok(()) => true,
        Err(_) => {
            ev!("timeout: some task still pending after 60 simulated seconds");
            probe("ke-timeout");
            if std::env::var("W3_DEBUG").is_ok() {
                eprintln!("W3_DEBUG timeout in run {} focus {}", simkit::run_index(), simkit::focus());
            }
            false
        }
    }
}

fn report_crashes(prop: &'static str) {
    for (name, msg) in exec::crashes() {
        simkit::violation(prop, "ke-node-panicked", format!("task {name} panicked: {msg}"));
    }
}

fn log_bytes(tag: &str, c2s: &PipeProbe, s2c: &PipeProbe) {
    ev!(
        "{tag} wire-bytes c2s written={} read={} | s2c written={} read={}",
        c2s.written_total(),
        c2s.read_total(),
        s2c.written_total(),
        s2c.read_total()
    );
}

// ---------------------------------------------------------------------------
// cookie / key checks shared by the C28 scenarios
// ---------------------------------------------------------------------------

/// Every cookie must open under the server's key set and carry exactly (alg, c2s, s2c).
fn check_cookies(what: &str, keyset: &KeySet, cookies: &[Vec<u8>], alg: u16, c2s: &[u8], s2c: &[u8]) {
    for (i, c) in cookies.iter().enumerate() {
        match vn::decode_cookie(keyset, c) {
            None => {
                check!("C28", "c28-cookie-decodes-with-server-keyset", false, "{what}: cookie {i} (len {}) does not decode under the server's key set", c.len());
            }
            Some(d) => {
                check!("C28", "c28-cookie-decodes-with-server-keyset", true, "");
                check!(
                    "C28",
                    "c28-cookie-algorithm-is-negotiated",
                    d.algorithm == alg,
                    "{what}: cookie {i} carries algorithm {} but {} was negotiated",
                    d.algorithm,
                    alg
                );
                check!(
                    "C28",
                    "c28-cookie-keys-are-exported-keys",
                    d.c2s == c2s && d.s2c == s2c,
                    "{what}: cookie {i} keys differ from the keys exported for the session (c2s equal: {}, s2c equal: {}, swapped: {})",
                    d.c2s == c2s,
                    d.s2c == s2c,
                    d.c2s == s2c && d.s2c == c2s
                );
            }
        }
    }
}

// ---------------------------------------------------------------------------
// scenario A: real client <-> real server
// ---------------------------------------------------------------------------

fn draw_client_version() -> ProtocolVersion {
    match choose("client.version", 4) {
        0 => ProtocolVersion::V4,
        1 => ProtocolVersion::V5,
        2 => ProtocolVersion::v4_upgrading_to_v5_with_default_tries(),
        _ => ProtocolVersion::UpgradedToV5,
    }
}

fn make_client(pv: ProtocolVersion) -> KeyExchangeClient {
    KeyExchangeClient::new(&NtsClientConfig {
        certificates: tls::ca_certs(),
        protocol_version: pv,
    })
    .expect("KeyExchangeClient::new")
}

fn draw_denied() -> Vec<String> {
    match choose("client.denied", 3) {
        0 => vec![],
        1 => vec!["deny.example".to_string()],
        _ => vec!["a.deny.example".to_string(), "b.deny.example".to_string()],
    }
}

async fn scen_honest(faults: &Faults) {
    let scfg = draw_server_cfg(false);
    let server = Rc::new(make_server(&scfg));
    let keyset = make_keyset();
    let pv = draw_client_version();
    let client = make_client(pv);
    let (offer_p, offer_a) = Nts::client_offer(&client);
    let denied = draw_denied();
    let accepted = accepted_ids(&scfg.accepted);
    let want_p = first_mutual_protocol(&offer_p, &accepted);
    let want_a = first_supported_algorithm(&offer_a);
    ev!("A honest: client version={pv:?} offers protocols={offer_p:x?} algorithms={offer_a:?} denied={} | model expects protocol={want_p:x?} algorithm={want_a:?}", denied.len());

    let (c2s_cfg, s2c_cfg) = faults.pair();
    let cuts_before = cut_count();
    let (c_io, s_io, c2s, s2c) = duplex(c2s_cfg, s2c_cfg);

    let srv_out: Rc<RefCell<Option<Result<bool, String>>>> = Rc::new(RefCell::new(None));
    let cli_out: Rc<RefCell<Option<Result<vn::ResultView, String>>>> = Rc::new(RefCell::new(None));
    let (stx, srx) = oneshot::channel();
    let (ctx, crx) = oneshot::channel();
    {
        let server = server.clone();
        let keyset = keyset.clone();
        let out = srv_out.clone();
        exec::spawn_noncritical("server", async move {
            let r = server.handle_connection(s_io, &keyset, || None::<()>).await;
            let r = match r {
                Ok(kept) => Ok(kept.is_some()),
                Err(e) => Err(err_name(&e)),
            };
            ev!("server: handle_connection -> {r:?}");
            *out.borrow_mut() = Some(r);
            let _ = stx.send(());
        });
    }
    {
        let out = cli_out.clone();
        exec::spawn_noncritical("client", async move {
            let r = client
                .exchange_keys(c_io, "localhost".to_string(), denied.iter().map(|s| std::borrow::Cow::Borrowed(s.as_str())))
                .await;
            let r = match r {
                Ok(res) => Ok(vn::result_view(res)),
                Err(e) => Err(err_name(&e)),
            };
            match &r {
                Ok(v) => ev!(
                    "client: exchange_keys -> Ok ntp_version={} cookies={} keylen={}/{} remote={} port={}",
                    v.ntp_version,
                    v.cookies.len(),
                    v.c2s.len(),
                    v.s2c.len(),
                    v.remote,
                    v.port
                ),
                Err(e) => ev!("client: exchange_keys -> Err {e}"),
            }
            *out.borrow_mut() = Some(r);
            let _ = ctx.send(());
        });
    }
    let done = join(vec![srx, crx]).await;
    log_bytes("A", &c2s, &s2c);
    report_crashes("C28");
    let cut = cut_fired_since(cuts_before);
    let cli = cli_out.borrow_mut().take();
    let srv = srv_out.borrow_mut().take();

    if let Some(Ok(v)) = &cli {
        let got_p = protocol_of_ntp_version(v.ntp_version);
        check!(
            "C28",
            "c28-protocol-is-first-mutual-in-client-order",
            Some(got_p) == want_p,
            "real client (offers {offer_p:x?}) against real server (accepts {accepted:x?}) ended with protocol {got_p:#x}, model expects {want_p:x?}"
        );
        check!(
            "C28",
            "c28-client-adopts-only-offered-protocol",
            offer_p.contains(&got_p),
            "client adopted protocol {got_p:#x} which it did not offer ({offer_p:x?})"
        );
        check!(
            "C28",
            "c28-exactly-eight-cookies",
            v.cookies.len() == 8,
            "real client obtained {} cookies from the real server",
            v.cookies.len()
        );
        if let Some(a) = want_a {
            check!(
                "C28",
                "c28-key-length-matches-first-supported-algorithm",
                Some(v.c2s.len()) == tls::key_len(a) && Some(v.s2c.len()) == tls::key_len(a),
                "client keys have lengths {}/{} but algorithm {a} (first supported in {offer_a:?}) needs {:?}",
                v.c2s.len(),
                v.s2c.len(),
                tls::key_len(a)
            );
            check_cookies("A real client / real server", &keyset, &v.cookies, a, &v.c2s, &v.s2c);
        }
        if v.remote == scfg.name.clone().unwrap_or("localhost".to_string()) && v.port == scfg.port.unwrap_or(123) {
            probe("c28-client-adopted-server-name-and-port");
        }
        probe("c28-honest-exchange-ok");
    }
    if want_p.is_none() {
        check!(
            "C28",
            "c28-no-mutual-protocol-no-success",
            !matches!(cli, Some(Ok(_))) && !matches!(srv, Some(Ok(_))),
            "no protocol in common (client {offer_p:x?}, server {accepted:x?}) but client ok={} server ok={}",
            matches!(cli, Some(Ok(_))),
            matches!(srv, Some(Ok(_)))
        );
        probe("c28-no-mutual-protocol");
    }
    if faults.off && done && !cut && want_p.is_some() && want_a.is_some() {
        check!(
            "C28",
            "c28-faultfree-exchange-completes",
            matches!(cli, Some(Ok(_))) && matches!(srv, Some(Ok(false))),
            "fault-free exchange with a mutual protocol did not complete: client {:?} server {:?}",
            cli.as_ref().map(|r| r.as_ref().map(|_| "ok").map_err(|e| e.clone())),
            srv
        );
    }
}

// ---------------------------------------------------------------------------
// scenario B: observing byzantine client (arbitrary preference lists) <-> real server
// ---------------------------------------------------------------------------

fn draw_id_list(label_n: &'static str, label_v: &'static str, pool: &[u16], max: u64) -> Vec<u16> {
    // benign (all zeros): a one-element list with the first pool entry
    let n = match choose(label_n, max + 1) {
        0 => 1,
        k if k == max => 0,
        k => k + 1,
    };
    (0..n).map(|_| pool[choose(label_v, pool.len() as u64) as usize]).collect()
}

async fn scen_observer(faults: &Faults) {
    let scfg = draw_server_cfg(false);
    let server = Rc::new(make_server(&scfg));
    let keyset = make_keyset();
    let protocols = draw_id_list("obs.protocols.n", "obs.protocol", &[P_V4, P_V5, P_V5, P_V4, 0x8002, 1, 0xffff], 4);
    let algorithms = draw_id_list("obs.algorithms.n", "obs.algorithm", &[15, 17, 17, 15, 16, 0, 30, 0xffff], 4);
    let accepted = accepted_ids(&scfg.accepted);
    let want_p = first_mutual_protocol(&protocols, &accepted);
    let want_a = first_supported_algorithm(&algorithms);
    // ignorable extras a server must skip
    let extras = choose("obs.extras", 4);
    let mut recs = vec![];
    if extras == 1 {
        recs.push(RawRec::new(0x4000 | 77, b"ignore-me"));
    }
    let order = choose("obs.order", 2);
    if order == 0 {
        recs.push(raw::rec_u16s(CRIT | raw::T_NEXT_PROTOCOL, &protocols));
        recs.push(raw::rec_u16s(CRIT | raw::T_AEAD, &algorithms));
    } else {
        recs.push(raw::rec_u16s(CRIT | raw::T_AEAD, &algorithms));
        recs.push(raw::rec_u16s(CRIT | raw::T_NEXT_PROTOCOL, &protocols));
    }
    if extras == 2 {
        recs.push(RawRec::new(raw::T_DENY, b"deny.example"));
        recs.push(RawRec::new(CRIT | raw::T_PORT, &[0, 123]));
    }
    if extras == 3 {
        recs.push(RawRec::new(raw::T_KEEPALIVE, b""));
    }
    recs.push(raw::eom());
    let request = raw::encode_all(&recs);
    ev!("B observer: client lists protocols={protocols:x?} algorithms={algorithms:?} extras={extras} order={order} request_len={} | model expects protocol={want_p:x?} algorithm={want_a:?}", request.len());

    let (c2s_cfg, s2c_cfg) = faults.pair();
    let (c_io, s_io, c2s, s2c) = duplex(c2s_cfg, s2c_cfg);
    let srv_out: Rc<RefCell<Option<Result<bool, String>>>> = Rc::new(RefCell::new(None));
    type Obs = (Vec<RawRec>, End, Option<(Vec<u8>, Vec<u8>)>);
    let cli_out: Rc<RefCell<Option<Result<Obs, String>>>> = Rc::new(RefCell::new(None));
    let (stx, srx) = oneshot::channel();
    let (ctx, crx) = oneshot::channel();
    {
        let server = server.clone();
        let keyset = keyset.clone();
        let out = srv_out.clone();
        exec::spawn_noncritical("server", async move {
            let r = server.handle_connection(s_io, &keyset, || None::<()>).await;
            let r = match r {
                Ok(kept) => Ok(kept.is_some()),
                Err(e) => Err(err_name(&e)),
            };
            ev!("server: handle_connection -> {r:?}");
            *out.borrow_mut() = Some(r);
            let _ = stx.send(());
        });
    }
    {
        let out = cli_out.clone();
        let connector = tls::byz_connector();
        exec::spawn_noncritical("observer-client", async move {
            let r: Result<Obs, String> = async {
                let mut io = connector
                    .connect(ServerName::try_from("localhost").unwrap(), c_io)
                    .await
                    .map_err(|e| format!("connect:{:?}", e.kind()))?;
                io.write_all(&request).await.map_err(|e| format!("write:{:?}", e.kind()))?;
                io.flush().await.map_err(|e| format!("flush:{:?}", e.kind()))?;
                let (recs, end) = raw::read_message(&mut io, 16384).await;
                let keys = match (want_p, want_a) {
                    (Some(p), Some(a)) => tls::export_client(io.get_ref().1, p, a),
                    _ => None,
                };
                let _ = io.shutdown().await;
                Ok((recs, end, keys))
            }
            .await;
            match &r {
                Ok((recs, end, _)) => ev!(
                    "observer-client: response records={:?} end={end:?}",
                    recs.iter().map(|r| (r.ty, r.body.len())).collect::<Vec<_>>()
                ),
                Err(e) => ev!("observer-client: failed {e}"),
            }
            *out.borrow_mut() = Some(r);
            let _ = ctx.send(());
        });
    }
    join(vec![srx, crx]).await;
    log_bytes("B", &c2s, &s2c);
    report_crashes("C28");
    let srv = srv_out.borrow_mut().take();
    let Some(Ok((recs, end, keys))) = cli_out.borrow_mut().take() else {
        return;
    };
    let named_p: Vec<u16> = recs.iter().filter(|r| r.kind() == raw::T_NEXT_PROTOCOL).flat_map(|r| r.u16s().unwrap_or_default()).collect();
    let named_a: Vec<u16> = recs.iter().filter(|r| r.kind() == raw::T_AEAD).flat_map(|r| r.u16s().unwrap_or_default()).collect();
    let cookies: Vec<Vec<u8>> = recs.iter().filter(|r| r.kind() == raw::T_COOKIE).map(|r| r.body.clone()).collect();
    let what = format!("client lists protocols {protocols:x?} algorithms {algorithms:?}, server accepts {accepted:x?}");
    match (want_p, want_a) {
        (Some(p), Some(a)) => {
            check!(
                "C28",
                "c28-server-selects-first-mutual-protocol",
                named_p.iter().all(|x| *x == p),
                "{what}: server named protocol(s) {named_p:x?}, model expects {p:#x}"
            );
            check!(
                "C28",
                "c28-server-selects-first-supported-algorithm",
                named_a.iter().all(|x| *x == a),
                "{what}: server named algorithm(s) {named_a:?}, model expects {a}"
            );
            if end == End::Eom {
                check!(
                    "C28",
                    "c28-server-response-names-one-protocol-and-algorithm",
                    named_p == vec![p] && named_a == vec![a],
                    "{what}: complete response names protocols {named_p:x?} algorithms {named_a:?}, expected exactly [{p:#x}] and [{a}]"
                );
                check!(
                    "C28",
                    "c28-exactly-eight-cookies",
                    cookies.len() == 8,
                    "{what}: complete response carries {} cookies",
                    cookies.len()
                );
                probe("c28-observer-complete-response");
            }
            if faults.off {
                check!(
                    "C28",
                    "c28-faultfree-exchange-completes",
                    end == End::Eom && cookies.len() == 8 && matches!(srv, Some(Ok(false))),
                    "{what}: fault-free exchange with mutual parameters did not complete: response end={end:?} cookies={} server={srv:?}",
                    cookies.len()
                );
            }
            check!("C28", "c28-exactly-eight-cookies", cookies.len() <= 8, "{what}: response carries {} cookies", cookies.len());
            if let Some((c2s_key, s2c_key)) = keys {
                check_cookies(&format!("B observer ({what})"), &keyset, &cookies, a, &c2s_key, &s2c_key);
            }
        }
        _ => {
            check!(
                "C28",
                "c28-no-mutual-parameters-no-cookies",
                cookies.is_empty() && !matches!(srv, Some(Ok(_))),
                "{what}: no mutually supported protocol/algorithm but the server sent {} cookies / returned {:?}",
                cookies.len(),
                srv
            );
            if want_p.is_none() {
                check!(
                    "C28",
                    "c28-no-mutual-protocol-none-named",
                    named_p.is_empty(),
                    "{what}: no protocol in common but the server named {named_p:x?}"
                );
            } else {
                check!(
                    "C28",
                    "c28-server-selects-first-mutual-protocol",
                    named_p.iter().all(|x| Some(*x) == want_p),
                    "{what}: server named protocol(s) {named_p:x?}, model expects {want_p:x?}"
                );
                check!("C28", "c28-no-mutual-algorithm-none-named", named_a.is_empty(), "{what}: no supported algorithm offered but the server named {named_a:?}");
            }
            probe("c28-observer-no-overlap");
        }
    }
}

// ---------------------------------------------------------------------------
// scenario C: real client <-> byzantine server
// ---------------------------------------------------------------------------

const BYZ_CLASSES: &[&str] = &[
    "honest",
    "unoffered-protocol",
    "unknown-protocol",
    "unknown-algorithm",
    "zero-cookies",
    "duplicate-records",
    "extra-unknown-records",
    "twelve-cookies",
    "two-protocols-in-record",
    "error-or-warning-record",
    "no-end-of-message",
    "second-choice-algorithm",
    "second-choice-protocol",
];

struct ByzPlan {
    class: usize,
    variant: u64,
    cookie_seed: u64,
}

/// Build the byzantine response from what the client offered.
fn byz_response(plan: &ByzPlan, offer_p: &[u16], offer_a: &[u16]) -> (Vec<RawRec>, bool) {
    let mut rng = simkit::Rng::new(plan.cookie_seed);
    let cookie = |rng: &mut simkit::Rng| -> RawRec {
        let n = 64 + (rng.below(80) as usize);
        let mut b = vec![0u8; n];
        for x in b.iter_mut() {
            *x = rng.below(256) as u8;
        }
        RawRec::new(raw::T_COOKIE, &b)
    };
    let p0 = offer_p.first().copied().unwrap_or(P_V4);
    let a0 = offer_a.first().copied().unwrap_or(15);
    let mut p = vec![p0];
    let mut a = vec![a0];
    let mut ncookies = 8;
    let mut pre: Vec<RawRec> = vec![];
    let mut post: Vec<RawRec> = vec![];
    let mut with_eom = true;
    match BYZ_CLASSES[plan.class] {
        "honest" => {}
        "unoffered-protocol" => {
            p = vec![if !offer_p.contains(&P_V5) {
                P_V5
            } else if !offer_p.contains(&P_V4) {
                P_V4
            } else {
                0x8002
            }];
        }
        "unknown-protocol" => p = vec![[0x8002u16, 1, 0xffff][plan.variant as usize % 3]],
        "unknown-algorithm" => a = vec![[16u16, 0, 30, 0xffff][plan.variant as usize % 4]],
        "zero-cookies" => ncookies = 0,
        "duplicate-records" => match plan.variant % 4 {
            0 => pre.push(raw::rec_u16s(CRIT | raw::T_NEXT_PROTOCOL, &[if p0 == P_V4 { P_V5 } else { P_V4 }])),
            1 => post.push(raw::rec_u16s(CRIT | raw::T_AEAD, &[if a0 == 15 { 17 } else { 15 }])),
            2 => {
                post.push(RawRec::new(CRIT | raw::T_PORT, &[0, 123]));
                post.push(RawRec::new(CRIT | raw::T_PORT, &[0, 124]));
            }
            _ => {
                post.push(RawRec::new(CRIT | raw::T_SERVER, b"a.example"));
                post.push(RawRec::new(CRIT | raw::T_SERVER, b"b.example"));
            }
        },
        "extra-unknown-records" => match plan.variant % 3 {
            0 => pre.push(RawRec::new(0x0100, b"noncritical-unknown")),
            1 => post.push(RawRec::new(0x0101, &[])),
            _ => post.push(RawRec::new(CRIT | 0x0102, b"critical-unknown")),
        },
        "twelve-cookies" => ncookies = 12,
        "two-protocols-in-record" => p = vec![p0, if p0 == P_V4 { P_V5 } else { P_V4 }],
        "error-or-warning-record" => match plan.variant % 3 {
            0 => pre.push(raw::rec_u16s(CRIT | raw::T_ERROR, &[1])),
            1 => post.push(raw::rec_u16s(CRIT | raw::T_WARNING, &[7])),
            _ => post.push(raw::rec_u16s(CRIT | raw::T_ERROR, &[2])),
        },
        "no-end-of-message" => with_eom = false,
        "second-choice-algorithm" => a = vec![offer_a.get(1).copied().unwrap_or(a0)],
        "second-choice-protocol" => p = vec![offer_p.get(1).copied().unwrap_or(p0)],
        _ => unreachable!(),
    }
    if plan.variant % 2 == 1 && plan.class == 0 {
        post.push(RawRec::new(CRIT | raw::T_SERVER, b"other.example"));
        post.push(RawRec::new(CRIT | raw::T_PORT, &[0x11, 0x6c]));
    }
    let mut recs = pre;
    recs.push(raw::rec_u16s(CRIT | raw::T_NEXT_PROTOCOL, &p));
    recs.push(raw::rec_u16s(CRIT | raw::T_AEAD, &a));
    for _ in 0..ncookies {
        recs.push(cookie(&mut rng));
    }
    recs.extend(post);
    if with_eom {
        recs.push(raw::eom());
    }
    (recs, with_eom)
}

async fn scen_byz_server(faults: &Faults) {
    let pv = draw_client_version();
    let client = make_client(pv);
    let (probe_p, probe_a) = Nts::client_offer(&client);
    let class = weighted("byz.class", &[2, 4, 2, 2, 2, 2, 2, 1, 1, 1, 1, 2, 2]);
    let plan = ByzPlan {
        class,
        variant: choose("byz.variant", 12),
        cookie_seed: simkit::choose_u64("byz.cookies"),
    };
    ev!("C byzantine server: client version={pv:?} (offers protocols={probe_p:x?} algorithms={probe_a:?}) response class={} variant={}", BYZ_CLASSES[class], plan.variant);
    fault(match BYZ_CLASSES[class] {
        "honest" => "ke-byz-honest-response",
        "unoffered-protocol" => "ke-unoffered-proto",
        "unknown-protocol" => "ke-unknown-proto",
        "unknown-algorithm" => "ke-unoffered-alg",
        "zero-cookies" => "ke-no-cookies",
        "duplicate-records" => "ke-duplicate-records",
        "extra-unknown-records" => "ke-extra-unknown-records",
        _ => "ke-other-malformed-response",
    });

    let (c2s_cfg, s2c_cfg) = faults.pair();
    let (c_io, s_io, c2s, s2c) = duplex(c2s_cfg, s2c_cfg);
    /// what the byzantine server saw and did
    struct Srv {
        offer_p: Vec<u16>,
        offer_a: Vec<u16>,
        sent: Vec<RawRec>,
        /// keys exported at the server end for every (protocol, algorithm) pair named in the response
        exports: Vec<(u16, u16, Vec<u8>, Vec<u8>)>,
    }
    let srv_out: Rc<RefCell<Option<Result<Srv, String>>>> = Rc::new(RefCell::new(None));
    let cli_out: Rc<RefCell<Option<Result<vn::ResultView, String>>>> = Rc::new(RefCell::new(None));
    let (stx, srx) = oneshot::channel();
    let (ctx, crx) = oneshot::channel();
    {
        let out = srv_out.clone();
        let acceptor = tls::byz_acceptor();
        exec::spawn_noncritical("byz-server", async move {
            let r: Result<Srv, String> = async {
                let mut io = acceptor.accept(s_io).await.map_err(|e| format!("accept:{:?}", e.kind()))?;
                let (req, end) = raw::read_message(&mut io, 16384).await;
                if end != End::Eom {
                    return Err(format!("request incomplete: {end:?}"));
                }
                let offer_p: Vec<u16> = req.iter().filter(|r| r.kind() == raw::T_NEXT_PROTOCOL).flat_map(|r| r.u16s().unwrap_or_default()).collect();
                let offer_a: Vec<u16> = req.iter().filter(|r| r.kind() == raw::T_AEAD).flat_map(|r| r.u16s().unwrap_or_default()).collect();
                ev!("byz-server: request records={:?} offers protocols={offer_p:x?} algorithms={offer_a:?}", req.iter().map(|r| (r.ty, r.body.len())).collect::<Vec<_>>());
                let (sent, _) = byz_response(&plan, &offer_p, &offer_a);
                let bytes = raw::encode_all(&sent);
                ev!("byz-server: sends records={:?}", sent.iter().map(|r| (r.ty, if r.kind() == raw::T_COOKIE { vec![] } else { r.body.clone() }, r.body.len())).collect::<Vec<_>>());
                let mut exports = vec![];
                let ps: Vec<u16> = sent.iter().filter(|r| r.kind() == raw::T_NEXT_PROTOCOL).flat_map(|r| r.u16s().unwrap_or_default()).collect();
                let as_: Vec<u16> = sent.iter().filter(|r| r.kind() == raw::T_AEAD).flat_map(|r| r.u16s().unwrap_or_default()).collect();
                for p in &ps {
                    for a in &as_ {
                        if let Some((c, s)) = tls::export_server(io.get_ref().1, *p, *a) {
                            exports.push((*p, *a, c, s));
                        }
                    }
                }
                io.write_all(&bytes).await.map_err(|e| format!("write:{:?}", e.kind()))?;
                io.flush().await.map_err(|e| format!("flush:{:?}", e.kind()))?;
                let _ = io.shutdown().await;
                Ok(Srv { offer_p, offer_a, sent, exports })
            }
            .await;
            if let Err(e) = &r {
                ev!("byz-server: failed {e}");
            }
            *out.borrow_mut() = Some(r);
            let _ = stx.send(());
        });
    }
    {
        let out = cli_out.clone();
        exec::spawn_noncritical("client", async move {
            let r = client.exchange_keys(c_io, "localhost".to_string(), []).await;
            let r = match r {
                Ok(res) => Ok(vn::result_view(res)),
                Err(e) => Err(err_name(&e)),
            };
            match &r {
                Ok(v) => ev!(
                    "client: exchange_keys -> Ok ntp_version={} cookies={} keylen={}/{} remote={} port={}",
                    v.ntp_version,
                    v.cookies.len(),
                    v.c2s.len(),
                    v.s2c.len(),
                    v.remote,
                    v.port
                ),
                Err(e) => ev!("client: exchange_keys -> Err {e}"),
            }
            *out.borrow_mut() = Some(r);
            let _ = ctx.send(());
        });
    }
    join(vec![srx, crx]).await;
    log_bytes("C", &c2s, &s2c);
    report_crashes("C28");
    let cli = cli_out.borrow_mut().take();
    let srv = srv_out.borrow_mut().take();
    let (Some(Ok(v)), Some(Ok(s))) = (&cli, &srv) else {
        // the client did not adopt anything (or the server never got to answer)
        simkit::oracle("C28");
        if matches!(cli, Some(Err(_))) {
            probe("c28-byz-response-rejected");
        }
        return;
    };
    probe("c28-byz-response-accepted");
    let cname = BYZ_CLASSES[class];
    let got_p = protocol_of_ntp_version(v.ntp_version);
    let named_p: Vec<u16> = s.sent.iter().filter(|r| r.kind() == raw::T_NEXT_PROTOCOL).flat_map(|r| r.u16s().unwrap_or_default()).collect();
    let named_a: Vec<u16> = s.sent.iter().filter(|r| r.kind() == raw::T_AEAD).flat_map(|r| r.u16s().unwrap_or_default()).collect();
    let sent_cookies: Vec<&Vec<u8>> = s.sent.iter().filter(|r| r.kind() == raw::T_COOKIE).map(|r| &r.body).collect();
    let what = format!(
        "client configured {pv:?} offered protocols {:x?} algorithms {:?}; byzantine response '{cname}' named protocols {named_p:x?} algorithms {named_a:?} with {} cookies; exchange_keys returned Ok(protocol_version={:?})",
        s.offer_p,
        s.offer_a,
        sent_cookies.len(),
        v.protocol_version
    );
    check!(
        "C28",
        "c28-client-adopts-only-offered-protocol",
        s.offer_p.contains(&got_p),
        "unoffered protocol adopted: {what}"
    );
    check!(
        "C28",
        "c28-client-adopts-protocol-named-by-server",
        named_p.contains(&got_p),
        "adopted protocol {got_p:#x} not named in the response: {what}"
    );
    // which (protocol, algorithm) pair explains the client's keys?
    let explained: Vec<(u16, u16)> = s
        .exports
        .iter()
        .filter(|(_, _, c, sk)| *c == v.c2s && *sk == v.s2c)
        .map(|(p, a, _, _)| (*p, *a))
        .collect();
    check!(
        "C28",
        "c28-client-keys-equal-server-export",
        explained.iter().any(|(p, _)| *p == got_p),
        "client keys (len {}/{}) are not the keys the server end exports for the adopted protocol and a named algorithm (matching pairs: {explained:x?}): {what}",
        v.c2s.len(),
        v.s2c.len()
    );
    check!(
        "C28",
        "c28-client-adopts-only-offered-algorithm",
        explained.iter().all(|(_, a)| s.offer_a.contains(a)),
        "unoffered algorithm adopted: {what}"
    );
    check!(
        "C28",
        "c28-client-cookies-are-the-servers",
        !v.cookies.is_empty() && v.cookies.len() <= 8 && v.cookies.iter().all(|c| sent_cookies.contains(&c)),
        "client holds {} cookies, not a non-empty subset (max 8) of the {} sent: {what}",
        v.cookies.len(),
        sent_cookies.len()
    );
    if probe_p != s.offer_p || probe_a != s.offer_a {
        simkit::abort(format!("harness: client_offer probe {probe_p:x?}/{probe_a:?} differs from the wire {:x?}/{:?}", s.offer_p, s.offer_a));
    }
}

// ---------------------------------------------------------------------------
// scenario D (C29): byzantine pool clients <-> real server with keep-alive permits
// ---------------------------------------------------------------------------

struct Permit(Rc<Cell<usize>>);

impl Drop for Permit {
    fn drop(&mut self) {
        self.0.set(self.0.get() + 1);
    }
}

#[derive(Clone, Debug, PartialEq)]
enum Kind {
    PlainKe,
    FixedKey,
    Support,
    Soup,
}

#[derive(Clone, Debug)]
struct PoolReq {
    kind: Kind,
    recs: Vec<RawRec>,
    /// model facts about the record sequence
    has_fixed_or_support: bool,
    carries_valid_token: bool,
    asks_keep_alive: bool,
    /// the sequence is exactly what a conforming pool client would send
    well_formed: bool,
    has_eom: bool,
    desc: String,
}

fn draw_token_record(tokens: &[String]) -> (Option<RawRec>, bool, String) {
    // 0 = a configured token (benign) if there is one
    match weighted("req.token", &[5, 2, 2, 1, 1, 1]) {
        0 if !tokens.is_empty() => {
            let t = &tokens[choose("req.token.which", tokens.len() as u64) as usize];
            (Some(RawRec::new(raw::T_AUTH, t.as_bytes())), true, "valid-token".into())
        }
        1 => (None, false, "no-token".into()),
        2 if !tokens.is_empty() => {
            // near miss: a configured token with one more character
            let t = format!("{}x", tokens[0]);
            let valid = tokens.iter().any(|k| *k == t);
            (Some(RawRec::new(raw::T_AUTH, t.as_bytes())), valid, "token+suffix".into())
        }
        3 if !tokens.is_empty() && !tokens[0].is_empty() => {
            let t = tokens[0][..tokens[0].len() - 1].to_string();
            let valid = tokens.iter().any(|k| *k == t);
            (Some(RawRec::new(raw::T_AUTH, t.as_bytes())), valid, "token-prefix".into())
        }
        4 => {
            let t = String::new();
            let valid = tokens.iter().any(|k| *k == t);
            (Some(RawRec::new(raw::T_AUTH, t.as_bytes())), valid, "empty-token".into())
        }
        _ => {
            let t = "TOKA".to_string();
            let valid = tokens.iter().any(|k| *k == t);
            (Some(RawRec::new(raw::T_AUTH, t.as_bytes())), valid, "wrong-token".into())
        }
    }
}

fn fixed_key_body(alg: u16, rng: &mut simkit::Rng, size_override: Option<usize>) -> Vec<u8> {
    let n = size_override.unwrap_or(tls::key_len(alg).unwrap_or(32));
    (0..2 * n).map(|_| rng.below(256) as u8).collect()
}

fn draw_pool_request(tokens: &[String], first: bool) -> PoolReq {
    let kind = match weighted(if first { "req.kind" } else { "req.followup.kind" }, &[3, 4, 3, 2]) {
        0 => Kind::FixedKey,
        1 => Kind::Support,
        2 => Kind::PlainKe,
        _ => Kind::Soup,
    };
    let mut rng = simkit::sub_rng("req.bytes");
    let keep = chance("req.keep-alive", 0.65);
    let mut recs = vec![];
    let mut well_formed = true;
    let mut has_eom = true;
    let mut desc;
    let mut valid = false;
    match kind {
        Kind::FixedKey => {
            let (tok, v, d) = draw_token_record(tokens);
            valid = v;
            desc = format!("fixed-key {d}");
            if let Some(t) = tok {
                recs.push(t);
            }
            let alg = [15u16, 17][choose("req.fixed.alg", 2) as usize];
            let proto = [P_V4, P_V5][choose("req.fixed.proto", 2) as usize];
            let bad = choose("req.fixed.bad", 8);
            let size = match bad {
                5 => Some(16),
                6 => Some(if alg == 15 { 64 } else { 32 }),
                _ => None,
            };
            let alg_sent = if bad == 7 { 16 } else { alg };
            if bad >= 5 {
                well_formed = false;
                desc.push_str(&format!(" malformed{bad}"));
            }
            recs.push(RawRec::new(CRIT | raw::T_FIXED_KEY, &fixed_key_body(alg, &mut rng, size)));
            recs.push(raw::rec_u16s(CRIT | raw::T_NEXT_PROTOCOL, &[proto]));
            recs.push(raw::rec_u16s(CRIT | raw::T_AEAD, &[alg_sent]));
            desc.push_str(&format!(" alg={alg_sent} proto={proto:#x}"));
        }
        Kind::Support => {
            let (tok, v, d) = draw_token_record(tokens);
            valid = v;
            desc = format!("support {d}");
            if let Some(t) = tok {
                recs.push(t);
            }
            let which = choose("req.support.which", 3);
            if which != 1 {
                recs.push(RawRec::new(CRIT | raw::T_SUP_PROTOCOLS, &[]));
            }
            if which != 0 {
                recs.push(RawRec::new(CRIT | raw::T_SUP_ALGORITHMS, &[]));
            }
            desc.push_str(&format!(" which={which}"));
        }
        Kind::PlainKe => {
            desc = "plain-ke".to_string();
            // optionally carrying a token (still a plain key exchange)
            if chance("req.plain.token", 0.3) {
                let (tok, v, d) = draw_token_record(tokens);
                valid = v;
                if let Some(t) = tok {
                    recs.push(t);
                }
                desc.push_str(&format!(" {d}"));
            }
            recs.push(raw::rec_u16s(CRIT | raw::T_NEXT_PROTOCOL, &[P_V4, P_V5]));
            recs.push(raw::rec_u16s(CRIT | raw::T_AEAD, &[15, 17]));
        }
        Kind::Soup => {
            well_formed = false;
            desc = "soup".to_string();
            let n = 1 + choose("req.soup.n", 6);
            for _ in 0..n {
                let r = match choose("req.soup.rec", 16) {
                    0 => {
                        let (tok, v, _) = draw_token_record(tokens);
                        valid |= v;
                        match tok {
                            Some(t) => t,
                            None => RawRec::new(raw::T_KEEPALIVE, &[]),
                        }
                    }
                    1 => RawRec::new(CRIT | raw::T_FIXED_KEY, &fixed_key_body(15, &mut rng, None)),
                    2 => RawRec::new(CRIT | raw::T_FIXED_KEY, &fixed_key_body(17, &mut rng, None)),
                    3 => raw::rec_u16s(CRIT | raw::T_NEXT_PROTOCOL, &[P_V4]),
                    4 => raw::rec_u16s(CRIT | raw::T_NEXT_PROTOCOL, &[P_V5, P_V4]),
                    5 => raw::rec_u16s(CRIT | raw::T_AEAD, &[15]),
                    6 => raw::rec_u16s(CRIT | raw::T_AEAD, &[17, 15]),
                    7 => RawRec::new(CRIT | raw::T_SUP_PROTOCOLS, &[]),
                    8 => RawRec::new(CRIT | raw::T_SUP_ALGORITHMS, &[0, 15, 0, 32]),
                    9 => RawRec::new(raw::T_KEEPALIVE, &[]),
                    10 => RawRec::new(0x0123, b"unknown"),
                    11 => RawRec::new(CRIT | 0x0123, b"unknown-critical"),
                    12 => RawRec::new(raw::T_COOKIE, &[1, 2, 3, 4]),
                    13 => RawRec::new(CRIT | raw::T_SERVER, b"srv.example"),
                    14 => RawRec::new(raw::T_DENY, b"deny.example"),
                    _ => RawRec::new(CRIT | raw::T_FIXED_KEY, &fixed_key_body(15, &mut rng, Some(7))),
                };
                recs.push(r);
            }
            if chance("req.soup.no-eom", 0.15) {
                has_eom = false;
            }
        }
    }
    if keep && kind != Kind::Soup {
        recs.push(RawRec::new(raw::T_KEEPALIVE, &[]));
    }
    // harmless extra the server must ignore
    if kind != Kind::Soup && chance("req.extra-unknown", 0.15) {
        recs.insert(0, RawRec::new(0x0222, b"ignored"));
        desc.push_str(" +unknown");
    }
    if has_eom {
        recs.push(raw::eom());
    }
    let has_fixed_or_support = recs.iter().any(|r| matches!(r.kind(), raw::T_FIXED_KEY | raw::T_SUP_PROTOCOLS | raw::T_SUP_ALGORITHMS));
    let asks_keep_alive = recs.iter().any(|r| r.kind() == raw::T_KEEPALIVE);
    if kind == Kind::Soup {
        desc.push_str(&format!(" {:?}", recs.iter().map(|r| r.ty).collect::<Vec<_>>()));
    }
    PoolReq {
        kind,
        recs,
        has_fixed_or_support,
        carries_valid_token: valid,
        asks_keep_alive,
        well_formed,
        has_eom,
        desc,
    }
}

/// One client-side observation: request i of the connection and what came back.
struct Exchange {
    req: PoolReq,
    resp: Vec<RawRec>,
    end: End,
}

struct ConnObs {
    exchanges: Vec<Exchange>,
    connect_failed: Option<String>,
}

struct SrvObs {
    permit_asked: bool,
    permit_granted: bool,
    first: Option<Result<bool, String>>,
    longterm: Option<Result<(), String>>,
}

async fn scen_pool(faults: &Faults) {
    let scfg = draw_server_cfg(true);
    let server = Rc::new(make_server(&scfg));
    let keyset = make_keyset();
    let slots = [1usize, 0, 2, 1][choose("pool.slots", 4) as usize];
    let nconn = 1 + choose("pool.connections", 3) as usize;
    let free = Rc::new(Cell::new(slots));
    ev!("D pool: {nconn} connections, {slots} keep-alive slots, tokens={:?}", scfg.tokens);
    let mut rxs = vec![];
    let mut cli_outs = vec![];
    let mut srv_outs = vec![];
    let mut cut_any = vec![];
    let mut pipes: Vec<(PipeProbe, PipeProbe)> = vec![];
    for c in 0..nconn {
        let nreq = 1 + weighted("pool.followups", &[3, 3, 2, 1]);
        let mut script = vec![];
        for i in 0..nreq {
            script.push(draw_pool_request(&scfg.tokens, i == 0));
        }
        for (i, r) in script.iter().enumerate() {
            ev!(
                "conn{c} req{i}: {} len={} fixed/support={} valid-token={} keep-alive={} well-formed={} eom={}",
                r.desc,
                raw::encode_all(&r.recs).len(),
                r.has_fixed_or_support,
                r.carries_valid_token,
                r.asks_keep_alive,
                r.well_formed,
                r.has_eom
            );
        }
        let (c2s_cfg, s2c_cfg) = faults.pair();
        cut_any.push(c2s_cfg.eof_after.is_some() || c2s_cfg.reset_after.is_some() || c2s_cfg.write_error_after.is_some() || s2c_cfg.eof_after.is_some() || s2c_cfg.reset_after.is_some() || s2c_cfg.write_error_after.is_some());
        let (c_io, s_io, c2s_probe, s2c_probe) = duplex(c2s_cfg, s2c_cfg);
        pipes.push((c2s_probe, s2c_probe));
        let (stx, srx) = oneshot::channel();
        let (ctx, crx) = oneshot::channel();
        rxs.push(srx);
        rxs.push(crx);
        let srv_out: Rc<RefCell<SrvObs>> = Rc::new(RefCell::new(SrvObs {
            permit_asked: false,
            permit_granted: false,
            first: None,
            longterm: None,
        }));
        let cli_out: Rc<RefCell<Option<ConnObs>>> = Rc::new(RefCell::new(None));
        srv_outs.push(srv_out.clone());
        cli_outs.push(cli_out.clone());
        {
            let server = server.clone();
            let keyset = keyset.clone();
            let free = free.clone();
            exec::spawn_noncritical(format!("server{c}"), async move {
                let obs = srv_out.clone();
                let free2 = free.clone();
                let r = server
                    .handle_connection(s_io, &keyset, move || {
                        let mut o = obs.borrow_mut();
                        o.permit_asked = true;
                        if free2.get() > 0 {
                            free2.set(free2.get() - 1);
                            o.permit_granted = true;
                            ev!("server{c}: keep-alive slot granted ({} left)", free2.get());
                            Some(Permit(free2.clone()))
                        } else {
                            ev!("server{c}: keep-alive slot refused (none left)");
                            None
                        }
                    })
                    .await;
                match r {
                    Ok(Some((permit, io))) => {
                        ev!("server{c}: handle_connection -> kept open");
                        srv_out.borrow_mut().first = Some(Ok(true));
                        let ks = keyset.clone();
                        let r2 = server.handle_longterm(io, move || ks.clone()).await;
                        let r2 = r2.map_err(|e| err_name(&e));
                        ev!("server{c}: handle_longterm -> {r2:?}");
                        srv_out.borrow_mut().longterm = Some(r2);
                        drop(permit);
                    }
                    Ok(None) => {
                        ev!("server{c}: handle_connection -> closed");
                        srv_out.borrow_mut().first = Some(Ok(false));
                    }
                    Err(e) => {
                        let e = err_name(&e);
                        ev!("server{c}: handle_connection -> Err {e}");
                        srv_out.borrow_mut().first = Some(Err(e));
                    }
                }
                let _ = stx.send(());
            });
        }
        {
            let connector = tls::byz_connector();
            exec::spawn_noncritical(format!("pool-client{c}"), async move {
                let mut obs = ConnObs { exchanges: vec![], connect_failed: None };
                match connector.connect(ServerName::try_from("localhost").unwrap(), c_io).await {
                    Err(e) => {
                        ev!("pool-client{c}: connect failed {:?}", e.kind());
                        obs.connect_failed = Some(format!("{:?}", e.kind()));
                    }
                    Ok(mut io) => {
                        for (i, req) in script.into_iter().enumerate() {
                            let bytes = raw::encode_all(&req.recs);
                            if io.write_all(&bytes).await.is_err() || io.flush().await.is_err() {
                                ev!("pool-client{c}: req{i} write failed");
                                break;
                            }
                            if !req.has_eom {
                                let _ = io.shutdown().await;
                            }
                            let (resp, end) = raw::read_message(&mut io, 16384).await;
                            ev!(
                                "pool-client{c}: req{i} response records={:?} end={end:?}",
                                resp.iter().map(|r| (r.ty, if r.kind() == raw::T_COOKIE { vec![] } else { r.body.clone() }, r.body.len())).collect::<Vec<_>>()
                            );
                            let stop = end != End::Eom || !req.has_eom;
                            obs.exchanges.push(Exchange { req, resp, end });
                            if stop {
                                break;
                            }
                        }
                        let _ = io.shutdown().await;
                    }
                }
                *cli_out.borrow_mut() = Some(obs);
                let _ = ctx.send(());
            });
        }
    }
    let done = join(rxs).await;
    if !done && std::env::var("W3_DEBUG").is_ok() {
        for (i, (a, b)) in pipes.iter().enumerate() {
            eprintln!(
                "W3_DEBUG conn{i}: c2s written={} read={} buffered={} closed={} | s2c written={} read={} buffered={} closed={}",
                a.written_total(), a.read_total(), a.buffered(), a.closed(), b.written_total(), b.read_total(), b.buffered(), b.closed()
            );
        }
    }
    report_crashes("C29");

    for c in 0..nconn {
        let Some(obs) = cli_outs[c].borrow_mut().take() else { continue };
        let srv = srv_outs[c].borrow();
        if obs.connect_failed.is_some() {
            continue;
        }
        let kept_handle = matches!(srv.first, Some(Ok(true)));
        for (i, x) in obs.exchanges.iter().enumerate() {
            let r = &x.req;
            let cookies = x.resp.iter().filter(|r| r.kind() == raw::T_COOKIE).count();
            let sup_lists = x.resp.iter().filter(|r| matches!(r.kind(), raw::T_SUP_PROTOCOLS | raw::T_SUP_ALGORITHMS)).count();
            let answered = !x.resp.is_empty();
            let is_bad_request = x.resp.len() == 2
                && x.resp[0].kind() == raw::T_ERROR
                && x.resp[0].body == raw::u16_body(&[raw::ERR_BAD_REQUEST])
                && x.resp[1].kind() == raw::T_EOM
                && x.resp[1].body.is_empty();
            let what = format!("conn{c} req{i} ({}) tokens={:?}", r.desc, scfg.tokens);
            if i == 0 {
                // ---- a new connection ----
                if r.has_fixed_or_support && !r.carries_valid_token {
                    probe("c29-unauthenticated-pool-request");
                    check!(
                        "C29",
                        "c29-unauthenticated-pool-request-not-served",
                        cookies == 0 && sup_lists == 0,
                        "{what}: request without a configured token was answered with {cookies} cookies / {sup_lists} supported-lists"
                    );
                    check!(
                        "C29",
                        "c29-unauthenticated-connection-not-kept-open",
                        !kept_handle && !srv.permit_granted,
                        "{what}: connection kept open (handle returned={kept_handle}, slot taken={}) for a request without a configured token",
                        srv.permit_granted
                    );
                    if r.well_formed && x.end == End::Eom {
                        check!(
                            "C29",
                            "c29-unauthenticated-pool-request-gets-bad-request",
                            is_bad_request,
                            "{what}: answer is {:?}, expected exactly an error record with code 1 (bad request) and end-of-message",
                            x.resp.iter().map(|r| (r.ty, r.body.clone())).collect::<Vec<_>>()
                        );
                    }
                    if r.well_formed && faults.off {
                        check!(
                            "C29",
                            "c29-unauthenticated-pool-request-gets-bad-request",
                            is_bad_request && x.end == End::Eom,
                            "{what}: fault-free run, answer is {:?} end={:?}, expected exactly an error record with code 1 (bad request)",
                            x.resp.iter().map(|r| (r.ty, r.body.clone())).collect::<Vec<_>>(),
                            x.end
                        );
                    }
                }
                if r.has_fixed_or_support && r.carries_valid_token && r.well_formed && (cookies > 0 || sup_lists > 0) {
                    probe("c29-authenticated-pool-request-served");
                }
                // kept open only if asked and a slot was available
                check!(
                    "C29",
                    "c29-kept-open-only-if-asked-and-slot-available",
                    !kept_handle || (r.asks_keep_alive && srv.permit_granted),
                    "{what}: server returned a long-lived handle although keep-alive asked={} slot granted={}",
                    r.asks_keep_alive,
                    srv.permit_granted
                );
                if kept_handle {
                    probe("c29-connection-kept-open");
                }
                if r.asks_keep_alive && srv.permit_asked && !srv.permit_granted {
                    probe("c29-keep-alive-refused-no-slot");
                    check!(
                        "C29",
                        "c29-kept-open-only-if-asked-and-slot-available",
                        !x.resp.iter().any(|r| r.kind() == raw::T_KEEPALIVE),
                        "{what}: no slot was available but the answer carries a keep-alive record"
                    );
                }
            } else {
                // ---- a follow-up request: was the connection really still open? ----
                if answered {
                    let prev = &obs.exchanges[..i];
                    let all_asked = prev.iter().all(|p| p.req.asks_keep_alive);
                    check!(
                        "C29",
                        "c29-kept-open-only-if-asked-and-slot-available",
                        all_asked && srv.permit_granted,
                        "{what}: follow-up request was answered although earlier requests asked keep-alive={:?} and slot granted={}",
                        prev.iter().map(|p| p.req.asks_keep_alive).collect::<Vec<_>>(),
                        srv.permit_granted
                    );
                    let first = &obs.exchanges[0].req;
                    check!(
                        "C29",
                        "c29-unauthenticated-connection-not-kept-open",
                        !(first.has_fixed_or_support && !first.carries_valid_token),
                        "{what}: follow-up request answered on a connection whose first request ({}) carried no configured token",
                        first.desc
                    );
                    probe("c29-follow-up-answered");
                }
                if r.kind == Kind::PlainKe {
                    probe("c29-plain-ke-follow-up");
                    if answered {
                        probe("c29-plain-ke-on-kept-open-answered");
                    }
                    check!(
                        "C29",
                        "c29-plain-ke-on-kept-open-not-accepted",
                        cookies == 0,
                        "{what}: plain key-exchange request on a kept-open connection was answered with {cookies} cookies"
                    );
                    if answered && x.end == End::Eom {
                        check!(
                            "C29",
                            "c29-plain-ke-on-kept-open-not-accepted",
                            x.resp.iter().any(|r| r.kind() == raw::T_ERROR) && !x.resp.iter().any(|r| r.kind() == raw::T_NEXT_PROTOCOL && !r.body.is_empty()),
                            "{what}: plain key-exchange request on a kept-open connection got {:?} (no error record / a protocol was selected)",
                            x.resp.iter().map(|r| (r.ty, r.body.len())).collect::<Vec<_>>()
                        );
                    }
                }
            }
        }
        let _ = cut_any[c];
    }
    if free.get() == slots {
        probe("c29-all-slots-returned");
    }
}

// ---------------------------------------------------------------------------
// run
// ---------------------------------------------------------------------------

pub fn run(focus: &'static str) {
    exec::block_on(async move {
        let faults = Faults::draw();
        let scenario = if focus == "C29" {
            weighted("scenario", &[0, 0, 0, 1])
        } else {
            // index 0 (benign) = the plain honest exchange
            weighted("scenario", &[4, 3, 4, 0])
        };
        match scenario {
            0 => scen_honest(&faults).await,
            1 => scen_observer(&faults).await,
            2 => scen_byz_server(&faults).await,
            _ => scen_pool(&faults).await,
        }
    });
}
