//! C30 — fault enumeration over WHERE an NTS-KE byte stream is cut / fragmented.
//!
//! One run = one (message, parser, chunking class) triple; inside the run the message is
//! delivered through a `SimStream` with the cut (EOF, or connection reset for the last
//! class) at EVERY offset 0..=len (see `run` for the strided middle part of the synthetic
//! messages larger than 2048 bytes), and once more uncut. The parsers are the REAL
//! `NtsRecord::parse`, `Request::parse`, `KeyExchangeResponse::parse`, reached through
//! the in-crate facade. Messages: `base_corpus` (real serialisers + hand-built), the systematic
//! well-framed degenerate-content family of `degen.rs`, and mutated variants. Monitors, per delivery:
//!   * the parse future completes: no panic, and never "pending with nothing left to read";
//!   * request / response parsers consumed at most 4096 bytes of the stream;
//!   * an accepted value re-serialises (real serialiser) to bytes that parse to an equal
//!     value which re-serialises to identical bytes.
//!   * the verdict (Ok value / error class) of every uncut or EOF-cut delivery equals the
//!     unfragmented slice parse of the same bytes, under every chunking class and with a
//!     single chunk boundary at every offset; the round-trip re-parse also runs fragmented;
//!   * (framing, an extension of the statement) an accepted record consumed exactly its
//!     4-byte header plus the declared body length.

use std::future::Future;
use std::pin::pin;
use std::sync::atomic::{AtomicBool, Ordering};
use std::sync::Arc;
use std::task::{Context, Poll, Wake, Waker};

use ntp_proto::verif::nts::{self as vn, Nts, Rec, Req, Resp};
use ntp_proto::{KeySetProvider, NtsError};
use simkit::stream::{duplex, StreamCfg};
use simkit::{check, ev, exec, fault, probe, Rng};

use crate::raw::{self, RawRec, CRIT};

pub const N_CLASSES: u64 = 10;
pub const N_PARSERS: u64 = 3;
const MAX_MESSAGE: usize = 4096;
const ENDLESS_CAP: usize = 64 * 1024;

const CLASS_NAMES: [&str; N_CLASSES as usize] = [
    "whole",
    "1-byte",
    "2-byte",
    "3-byte",
    "7-byte",
    "64-byte",
    "513-byte",
    "seeded-short-reads",
    "seeded-short-reads+spurious-pending",
    "whole/reset-instead-of-eof",
];

fn class_cfg(class: u64) -> StreamCfg {
    let mut c = StreamCfg::default();
    match class {
        0 | 9 => {}
        1 => c.max_read_chunk = 1,
        2 => c.max_read_chunk = 2,
        3 => c.max_read_chunk = 3,
        4 => c.max_read_chunk = 7,
        5 => c.max_read_chunk = 64,
        6 => c.max_read_chunk = 513,
        7 => c.short_read_p = 0.5,
        _ => {
            c.short_read_p = 0.3;
            c.pending_p = 0.3;
        }
    }
    c
}

// ---------------------------------------------------------------------------
// tiny manual executor with exact hang detection
// ---------------------------------------------------------------------------

struct Flag(AtomicBool);

impl Wake for Flag {
    fn wake(self: Arc<Self>) {
        self.0.store(true, Ordering::SeqCst);
    }
    fn wake_by_ref(self: &Arc<Self>) {
        self.0.store(true, Ordering::SeqCst);
    }
}

enum Driven<T> {
    Done(T),
    /// pending, not woken, and the environment has nothing more to offer
    Hang,
    Panic(String),
}

/// Poll `fut` to completion. `on_idle` is called when the future is pending without
/// having been woken; it returns true if it made progress possible (fed more bytes).
fn drive<T>(fut: impl Future<Output = T>, mut on_idle: impl FnMut() -> bool) -> Driven<T> {
    let flag = Arc::new(Flag(AtomicBool::new(false)));
    let waker = Waker::from(flag.clone());
    let mut cx = Context::from_waker(&waker);
    let mut fut = pin!(fut);
    let mut spins = 0u64;
    loop {
        let r = exec::catch(|| fut.as_mut().poll(&mut cx));
        match r {
            Err(msg) => return Driven::Panic(msg),
            Ok(Poll::Ready(v)) => return Driven::Done(v),
            Ok(Poll::Pending) => {
                spins += 1;
                if flag.0.swap(false, Ordering::SeqCst) && spins < 50_000_000 {
                    continue;
                }
                if on_idle() {
                    continue;
                }
                return Driven::Hang;
            }
        }
    }
}

/// Run a future that only touches in-memory writers (never pends).
fn now<T>(fut: impl Future<Output = T>) -> T {
    match drive(fut, || false) {
        Driven::Done(v) => v,
        Driven::Hang => panic!("in-memory serialisation pended"),
        Driven::Panic(m) => panic!("in-memory serialisation panicked: {m}"),
    }
}

// ---------------------------------------------------------------------------
// corpus
// ---------------------------------------------------------------------------

#[derive(Clone)]
pub struct Msg {
    pub name: String,
    pub bytes: Vec<u8>,
    /// deliver as a stream that never ends (refilled on demand with `bytes` repeated)
    pub endless: bool,
}

fn m(name: &str, bytes: Vec<u8>) -> Msg {
    Msg { name: name.to_string(), bytes, endless: false }
}

fn ser_req(r: &Req) -> Vec<u8> {
    let mut out = vec![];
    now(Nts::serialize_request(r, &mut out)).expect("serialize request");
    out
}

fn ser_resp(r: &Resp) -> Vec<u8> {
    let mut out = vec![];
    now(Nts::serialize_response(r, &mut out)).expect("serialize response");
    out
}

fn ser_rec(r: &Rec) -> Vec<u8> {
    let mut out = vec![];
    now(Nts::serialize_record(r, &mut out)).expect("serialize record");
    out
}

/// Messages that flow in the key-exchange runs, produced by the REAL serialisers from
/// the values the real client / server build, plus hand-built messages covering every
/// record type, boundary sizes, oversize messages and endless streams.
pub fn base_corpus() -> Vec<Msg> {
    let mut out = vec![];
    let keyset = KeySetProvider::new(1).get();
    let k32a: Vec<u8> = (0..32).collect();
    let k32b: Vec<u8> = (32..64).collect();
    let k64a: Vec<u8> = (0..64).collect();
    let k64b: Vec<u8> = (64..128).collect();
    let cookies15: Vec<Vec<u8>> = (0..8).map(|_| vn::encode_cookie(&keyset, 15, &k32a, &k32b).unwrap()).collect();
    let cookies17: Vec<Vec<u8>> = (0..8).map(|_| vn::encode_cookie(&keyset, 17, &k64a, &k64b).unwrap()).collect();

    // --- requests the real client sends (KeyExchangeClient::exchange_keys) ---
    for (pn, protocols) in [("v4", vec![0u16]), ("v5", vec![0x8001]), ("v5v4", vec![0x8001, 0])] {
        for (dn, denied) in [("", vec![]), ("+deny1", vec!["deny.example".to_string()]), ("+deny2", vec!["a.deny.example".to_string(), "b.deny.example".to_string()])] {
            out.push(m(
                &format!("req-ke-{pn}{dn}"),
                ser_req(&Req::KeyExchange { algorithms: vec![17, 15], protocols: protocols.clone(), denied_servers: denied }),
            ));
        }
    }
    // --- pool requests (Request::serialize of FixedKey / Support) ---
    for keep in [false, true] {
        out.push(m(
            &format!("req-fixed-15-keep{keep}"),
            ser_req(&Req::FixedKey { authentication: "tokA".into(), c2s: k32a.clone(), s2c: k32b.clone(), algorithm: 15, protocol: 0, keep_alive: keep }),
        ));
        out.push(m(
            &format!("req-fixed-17-keep{keep}"),
            ser_req(&Req::FixedKey { authentication: "pool-token-B-0123456789".into(), c2s: k64a.clone(), s2c: k64b.clone(), algorithm: 17, protocol: 0x8001, keep_alive: keep }),
        ));
        for (wp, wa) in [(true, false), (false, true), (true, true)] {
            out.push(m(
                &format!("req-support-p{wp}-a{wa}-keep{keep}"),
                ser_req(&Req::Support { authentication: "tokA".into(), wants_protocols: wp, wants_algorithms: wa, keep_alive: keep }),
            ));
        }
    }
    // --- responses the real server sends ---
    for (an, alg, cookies) in [("15", 15u16, &cookies15), ("17", 17, &cookies17)] {
        for (sn, server, port, keep) in [
            ("", None, None, false),
            ("+server", Some("ntp.example.org".to_string()), None, false),
            ("+server+port", Some("time.sim".to_string()), Some(4460u16), false),
            ("+keep", None, Some(123), true),
        ] {
            out.push(m(
                &format!("resp-ke-{an}{sn}"),
                ser_resp(&Resp { protocol: if alg == 15 { 0 } else { 0x8001 }, algorithm: alg, cookies: cookies.clone(), server, port, keep_alive: keep }),
            ));
        }
    }
    for (n, p) in [("resp-no-overlap-protocol", None), ("resp-no-overlap-algorithm-v4", Some(0u16)), ("resp-no-overlap-algorithm-v5", Some(0x8001))] {
        let mut b = vec![];
        now(Nts::serialize_no_overlap(p, &mut b)).unwrap();
        out.push(m(n, b));
    }
    for code in [0u16, 1, 2, 77] {
        let mut b = vec![];
        now(Nts::serialize_error_response(code, &mut b)).unwrap();
        out.push(m(&format!("resp-error-{code}"), b));
    }
    for (n, a, p, keep) in [
        ("resp-supports-both", Some(vec![(15u16, 32u16), (17, 64)]), Some(vec![0u16, 0x8001]), false),
        ("resp-supports-alg-keep", Some(vec![(15, 32), (17, 64)]), None, true),
        ("resp-supports-proto", None, Some(vec![0]), false),
        ("resp-supports-none", None, None, false),
    ] {
        let mut b = vec![];
        now(Nts::serialize_supports(a.as_deref(), p.as_deref(), keep, &mut b)).unwrap();
        out.push(m(n, b));
    }
    // --- every record type once (real record serialiser), as one message ---
    let zoo = [
        Rec::NextProtocol(vec![0, 0x8001, 7]),
        Rec::AeadAlgorithm(vec![15, 17, 99]),
        Rec::Warning(3),
        Rec::NewCookie(cookies15[0].clone()),
        Rec::Server("zoo.example".into()),
        Rec::Port(123),
        Rec::Unknown { record_type: 0x0333, critical: false, data: b"unknown".to_vec() },
        Rec::KeepAlive,
        Rec::SupportedNextProtocolList(vec![0, 0x8001]),
        Rec::SupportedAlgorithmList(vec![(15, 32), (17, 64)]),
        Rec::FixedKeyRequest { c2s: k32a.clone(), s2c: k32b.clone() },
        Rec::NtpServerDeny("deny.example".into()),
        Rec::Authentication("tokA".into()),
        Rec::Error(1),
        Rec::Unknown { record_type: 0x0334, critical: true, data: vec![] },
        Rec::EndOfMessage,
    ];
    let mut b = vec![];
    for r in &zoo {
        b.extend(ser_rec(r));
    }
    out.push(m("zoo-all-record-types", b));
    for (i, r) in zoo.iter().enumerate() {
        let mut b = ser_rec(r);
        b.extend(ser_rec(&Rec::EndOfMessage));
        out.push(m(&format!("single-record-{i}"), b));
    }
    // --- the same kinds of messages hand-built with the simulator's own encoder, so that the
    // corpus does not depend on the serialiser under test for any record kind ---
    out.push(m("raw-resp-full", {
        let mut r = vec![raw::rec_u16s(CRIT | 1, &[0]), raw::rec_u16s(CRIT | 4, &[15])];
        for c in &cookies15 {
            r.push(RawRec::new(raw::T_COOKIE, c));
        }
        r.push(RawRec::new(CRIT | raw::T_SERVER, b"ntp.example.org"));
        r.push(RawRec::new(CRIT | raw::T_PORT, &[0x11, 0x6c]));
        r.push(RawRec::new(raw::T_KEEPALIVE, &[]));
        r.push(raw::eom());
        raw::encode_all(&r)
    }));
    out.push(m("raw-resp-v5-512-one-cookie", raw::encode_all(&[raw::rec_u16s(CRIT | 1, &[0x8001]), raw::rec_u16s(CRIT | 4, &[17]), RawRec::new(raw::T_COOKIE, &cookies17[0]), raw::eom()])));
    out.push(m("raw-req-ke", raw::encode_all(&[raw::rec_u16s(CRIT | 1, &[0x8001, 0]), raw::rec_u16s(CRIT | 4, &[17, 15]), RawRec::new(raw::T_DENY, b"deny.example"), raw::eom()])));
    out.push(m("raw-req-fixed-keep", {
        let mut keys = k32a.clone();
        keys.extend(&k32b);
        raw::encode_all(&[RawRec::new(raw::T_AUTH, b"tokA"), RawRec::new(CRIT | raw::T_FIXED_KEY, &keys), raw::rec_u16s(CRIT | 1, &[0]), raw::rec_u16s(CRIT | 4, &[15]), RawRec::new(raw::T_KEEPALIVE, &[]), raw::eom()])
    }));
    out.push(m("raw-req-fixed-512", {
        let mut keys = k64a.clone();
        keys.extend(&k64b);
        raw::encode_all(&[RawRec::new(raw::T_AUTH, b"x"), RawRec::new(CRIT | raw::T_FIXED_KEY, &keys), raw::rec_u16s(CRIT | 1, &[0x8001]), raw::rec_u16s(CRIT | 4, &[17]), raw::eom()])
    }));
    out.push(m("raw-req-support-keep", raw::encode_all(&[RawRec::new(raw::T_AUTH, b"tokA"), RawRec::new(CRIT | raw::T_SUP_PROTOCOLS, &[]), RawRec::new(CRIT | raw::T_SUP_ALGORITHMS, &[]), RawRec::new(raw::T_KEEPALIVE, &[]), raw::eom()])));
    out.push(m("raw-resp-supports-keep", raw::encode_all(&[RawRec::new(CRIT | raw::T_SUP_ALGORITHMS, &[0, 15, 0, 32, 0, 17, 0, 64]), raw::rec_u16s(CRIT | raw::T_SUP_PROTOCOLS, &[0, 0x8001]), RawRec::new(raw::T_KEEPALIVE, &[]), raw::eom()])));
    out.push(m("raw-resp-error-bad-request", raw::encode_all(&[raw::rec_u16s(CRIT | raw::T_ERROR, &[1]), raw::eom()])));
    out.push(m("raw-resp-warning", raw::encode_all(&[raw::rec_u16s(CRIT | raw::T_WARNING, &[9]), raw::eom()])));
    // --- hand-built oddities (raw encoder) ---
    out.push(m("eom-with-body", raw::encode_all(&[RawRec::new(CRIT, b"body-in-end-of-message")])));
    out.push(m("keepalive-with-body", raw::encode_all(&[RawRec::new(raw::T_KEEPALIVE, &[9; 600]), raw::eom()])));
    out.push(m("noncritical-known-types", raw::encode_all(&[raw::rec_u16s(raw::T_NEXT_PROTOCOL, &[0]), raw::rec_u16s(raw::T_AEAD, &[15]), RawRec::new(raw::T_EOM, &[])])));
    out.push(m("critical-cookie", raw::encode_all(&[raw::rec_u16s(CRIT | 1, &[0]), raw::rec_u16s(CRIT | 4, &[15]), RawRec::new(CRIT | raw::T_COOKIE, &cookies15[0]), raw::eom()])));
    out.push(m("odd-length-lists", raw::encode_all(&[RawRec::new(CRIT | 1, &[0, 0, 1]), RawRec::new(CRIT | 4, &[0]), raw::eom()])));
    out.push(m("odd-fixed-key", raw::encode_all(&[RawRec::new(raw::T_AUTH, b"tokA"), RawRec::new(CRIT | raw::T_FIXED_KEY, &[7; 65]), raw::rec_u16s(CRIT | 1, &[0]), raw::rec_u16s(CRIT | 4, &[15]), raw::eom()])));
    out.push(m("odd-fixed-key-first", raw::encode_all(&[RawRec::new(CRIT | raw::T_FIXED_KEY, &[7; 65]), RawRec::new(raw::T_AUTH, b"tokA"), raw::rec_u16s(CRIT | 1, &[0]), raw::rec_u16s(CRIT | 4, &[15]), raw::eom()])));
    out.push(m("non-utf8-strings", raw::encode_all(&[RawRec::new(CRIT | raw::T_SERVER, &[0xff, 0xfe, 0x80]), RawRec::new(raw::T_AUTH, &[0xc3, 0x28]), RawRec::new(raw::T_DENY, &[0xe2, 0x82]), raw::eom()])));
    out.push(m("multibyte-utf8-strings", raw::encode_all(&[RawRec::new(raw::T_AUTH, "tök€n".as_bytes()), RawRec::new(CRIT | raw::T_SUP_PROTOCOLS, &[]), raw::eom()])));
    out.push(m("empty-stream", vec![]));
    out.push(m("twelve-cookies", {
        let mut r = vec![raw::rec_u16s(CRIT | 1, &[0]), raw::rec_u16s(CRIT | 4, &[15])];
        for _ in 0..12 {
            r.push(RawRec::new(raw::T_COOKIE, &cookies15[1]));
        }
        r.push(raw::eom());
        raw::encode_all(&r)
    }));
    // --- boundary sizes around the 4096-byte cap: a valid request padded with an ignored record ---
    for total in [4095usize, 4096, 4097, 4100] {
        let head = raw::encode_all(&[raw::rec_u16s(CRIT | 1, &[0]), raw::rec_u16s(CRIT | 4, &[17, 15])]);
        let pad = total - head.len() - 4 - 4;
        let mut b = head;
        b.extend(raw::encode_all(&[RawRec::new(0x0444, &vec![0x5a; pad]), raw::eom()]));
        assert_eq!(b.len(), total);
        out.push(m(&format!("req-ke-padded-to-{total}"), b));
    }
    for total in [4096usize, 4097] {
        let mut r = vec![raw::rec_u16s(CRIT | 1, &[0]), raw::rec_u16s(CRIT | 4, &[15])];
        r.push(RawRec::new(raw::T_COOKIE, &cookies15[2]));
        let used = raw::encode_all(&r).len();
        r.push(RawRec::new(0x0444, &vec![0xa5; total - used - 8]));
        r.push(raw::eom());
        let b = raw::encode_all(&r);
        assert_eq!(b.len(), total);
        out.push(m(&format!("resp-ke-padded-to-{total}"), b));
    }
    // --- oversize messages (up to 3 x 4096) ---
    out.push(m("oversize-req-many-denied-5k", {
        let mut r = vec![raw::rec_u16s(CRIT | 1, &[0x8001, 0]), raw::rec_u16s(CRIT | 4, &[17, 15])];
        for i in 0..240 {
            r.push(RawRec::new(raw::T_DENY, format!("host-{i:04}.example").as_bytes()));
        }
        r.push(raw::eom());
        raw::encode_all(&r)
    }));
    out.push(m("oversize-req-many-denied-12k", {
        let mut r = vec![raw::rec_u16s(CRIT | 1, &[0x8001, 0]), raw::rec_u16s(CRIT | 4, &[17, 15])];
        for i in 0..580 {
            r.push(RawRec::new(raw::T_DENY, format!("host-{i:04}.example").as_bytes()));
        }
        r.push(raw::eom());
        let b = raw::encode_all(&r);
        assert!(b.len() > 12000 && b.len() <= 3 * 4096);
        b
    }));
    out.push(m("oversize-resp-40-big-cookies-12k", {
        let mut r = vec![raw::rec_u16s(CRIT | 1, &[0]), raw::rec_u16s(CRIT | 4, &[15])];
        for _ in 0..40 {
            r.push(RawRec::new(raw::T_COOKIE, &[0x33; 300]));
        }
        r.push(raw::eom());
        raw::encode_all(&r)
    }));
    out.push(m("oversize-single-unknown-record-12k", raw::encode_all(&[RawRec::new(0x0555, &vec![1; 12000]), raw::eom()])));
    out.push(m("oversize-record-claims-65535", {
        let mut b = vec![0x05, 0x55, 0xff, 0xff];
        b.extend(vec![2u8; 12000]);
        b
    }));
    out.push(m("oversize-cookie-straddles-4096", {
        let mut r = vec![raw::rec_u16s(CRIT | 1, &[0]), raw::rec_u16s(CRIT | 4, &[15]), RawRec::new(0x0444, &vec![0; 3960])];
        r.push(RawRec::new(raw::T_COOKIE, &[0x44; 200]));
        r.push(raw::eom());
        raw::encode_all(&r)
    }));
    out.push(m("oversize-eom-body-straddles-4096", raw::encode_all(&[raw::rec_u16s(CRIT | 1, &[0]), raw::rec_u16s(CRIT | 4, &[15]), RawRec::new(0x0444, &vec![0; 3900]), RawRec::new(CRIT, &[0; 400])])));
    out.push(m("oversize-string-record-8k", raw::encode_all(&[RawRec::new(raw::T_AUTH, &vec![b'a'; 8000]), RawRec::new(CRIT | raw::T_SUP_ALGORITHMS, &[]), raw::eom()])));
    // --- endless record streams (never an end-of-message record, never EOF) ---
    for (n, unit) in [
        ("endless-keepalive", raw::encode_all(&[RawRec::new(raw::T_KEEPALIVE, &[])])),
        ("endless-cookies", raw::encode_all(&[RawRec::new(raw::T_COOKIE, &[0x77; 60])])),
        ("endless-unknown-noncritical", raw::encode_all(&[RawRec::new(0x0666, b"again and again")])),
        ("endless-denied", raw::encode_all(&[RawRec::new(raw::T_DENY, b"deny.example")])),
        ("endless-0xff", vec![0xff; 64]),
        ("endless-keepalive-with-big-bodies", raw::encode_all(&[RawRec::new(raw::T_KEEPALIVE, &[0; 3000])])),
    ] {
        let mut bytes = vec![];
        while bytes.len() < 3 * 4096 {
            bytes.extend_from_slice(&unit);
        }
        out.push(Msg { name: n.to_string(), bytes, endless: true });
    }
    out
}

/// A mutated variant of a base message (deterministic in (base index, variant index)).
fn mutate(base: &Msg, bi: usize, vi: u64) -> Msg {
    let mut rng = Rng::new(simkit::rng::mix(&[0x6d75_7461_7465, bi as u64, vi]));
    let mut b = base.bytes.clone();
    let (recs, _) = raw::split(&b);
    let op = rng.below(11);
    let mut recs2 = recs.clone();
    let name;
    let rnd_rec = |rng: &mut Rng| {
        let ty = match rng.below(3) {
            0 => rng.below(16) as u16,
            1 => CRIT | rng.below(16) as u16,
            _ => rng.next_u64() as u16,
        };
        let n = rng.below(40) as usize;
        RawRec::new(ty, &(0..n).map(|_| rng.below(256) as u8).collect::<Vec<_>>())
    };
    match op {
        0 if !b.is_empty() => {
            let i = rng.below(b.len() as u64) as usize;
            let bit = rng.below(8);
            b[i] ^= 1 << bit;
            name = format!("bitflip@{i}.{bit}");
        }
        1 if !b.is_empty() => {
            let i = rng.below(b.len() as u64) as usize;
            b[i] = rng.below(256) as u8;
            name = format!("byteset@{i}");
        }
        2 if !recs.is_empty() => {
            // tamper with one record's length field
            let k = rng.below(recs.len() as u64) as usize;
            let off: usize = recs[..k].iter().map(|r| 4 + r.body.len()).sum();
            let len = recs[k].body.len() as u16;
            let rest = (b.len() - off - 4) as u16;
            let new = match rng.below(7) {
                0 => len.wrapping_add(1),
                1 => len.wrapping_sub(1),
                2 => 0,
                3 => 0xffff,
                4 => rest.wrapping_add(1),
                5 => 4096,
                _ => rest,
            };
            b[off + 2..off + 4].copy_from_slice(&new.to_be_bytes());
            name = format!("len[{k}]={new}");
        }
        3 if !recs.is_empty() => {
            let k = rng.below(recs.len() as u64) as usize;
            let off: usize = recs[..k].iter().map(|r| 4 + r.body.len()).sum();
            let old = recs[k].ty;
            let new = match rng.below(3) {
                0 => old ^ CRIT,
                1 => (old & CRIT) | rng.below(16) as u16,
                _ => rng.next_u64() as u16,
            };
            b[off..off + 2].copy_from_slice(&new.to_be_bytes());
            name = format!("type[{k}]={new:#x}");
        }
        4 if recs.len() > 1 => {
            let k = rng.below(recs.len() as u64) as usize;
            recs2.remove(k);
            b = raw::encode_all(&recs2);
            name = format!("delete[{k}]");
        }
        5 if !recs.is_empty() => {
            let k = rng.below(recs.len() as u64) as usize;
            recs2.insert(k, recs[k].clone());
            b = raw::encode_all(&recs2);
            name = format!("duplicate[{k}]");
        }
        6 if recs.len() > 1 => {
            let k = rng.below(recs.len() as u64 - 1) as usize;
            recs2.swap(k, k + 1);
            b = raw::encode_all(&recs2);
            name = format!("swap[{k}]");
        }
        7 if !b.is_empty() => {
            let k = rng.below(b.len() as u64) as usize;
            b.truncate(k);
            let n = rng.below(24) as usize;
            b.extend((0..n).map(|_| rng.below(256) as u8));
            name = format!("truncate@{k}+junk{n}");
        }
        8 => {
            let k = rng.below(recs.len() as u64 + 1) as usize;
            recs2.insert(k, rnd_rec(&mut rng));
            b = raw::encode_all(&recs2);
            name = format!("insert[{k}]");
        }
        9 => {
            let n = 1 + rng.below(40) as usize;
            b.extend((0..n).map(|_| rng.below(256) as u8));
            name = format!("trailing-junk{n}");
        }
        _ => {
            // replace one record's body with random bytes of the same length
            if recs.is_empty() {
                b.push(rng.below(256) as u8);
                name = "append-byte".to_string();
            } else {
                let k = rng.below(recs.len() as u64) as usize;
                for x in recs2[k].body.iter_mut() {
                    *x = rng.below(256) as u8;
                }
                b = raw::encode_all(&recs2);
                name = format!("scramble-body[{k}]");
            }
        }
    }
    Msg { name: format!("{}~{name}#{vi}", base.name), bytes: b, endless: false }
}

pub fn variants_per_message(thorough: bool) -> u64 {
    if thorough { 40 } else { 6 }
}

/// Number of base messages.
pub fn n_base() -> u64 {
    static N: std::sync::OnceLock<u64> = std::sync::OnceLock::new();
    *N.get_or_init(|| base_corpus().len() as u64)
}

/// Mutated variants per message of the systematic degenerate family (`degen.rs`); the
/// family is itself a systematic variation, so the quick tier adds none.
pub fn variants_per_degenerate(thorough: bool) -> u64 {
    if thorough { 3 } else { 0 }
}

pub fn n_degen() -> u64 {
    crate::degen::corpus().len() as u64
}

pub fn n_messages(thorough: bool) -> u64 {
    n_base() * (1 + variants_per_message(thorough)) + n_degen() * (1 + variants_per_degenerate(thorough))
}

pub fn n_cases(thorough: bool) -> u64 {
    n_messages(thorough) * N_PARSERS * N_CLASSES
}

// ---------------------------------------------------------------------------
// one delivery
// ---------------------------------------------------------------------------

#[derive(Clone, Debug, PartialEq)]
enum Value {
    Rec(Rec),
    Req(Req),
    Resp(Resp),
}

enum Outcome {
    Accepted(Value),
    Rejected(String),
}

fn nts_err(e: &NtsError) -> String {
    match e {
        NtsError::IO(e) => format!("IO:{:?}", e.kind()),
        other => format!("{other:?}"),
    }
}

#[derive(Clone, Copy, PartialEq, Debug)]
enum Cut {
    None,
    Eof(usize),
    Reset(usize),
}

struct Delivery {
    outcome: Option<Outcome>,
    consumed: usize,
}

/// `split = Some(j)`: the first `j` bytes are available at once, the rest only arrives when the
/// parser has consumed them and is waiting (one chunk boundary exactly at offset `j`).
fn deliver(parser: u64, msg: &Msg, class: u64, cut: Cut, endless_mode: bool, split: Option<usize>) -> Delivery {
    let mut cfg = class_cfg(class);
    match cut {
        Cut::None => {}
        Cut::Eof(k) => cfg.eof_after = Some(k),
        Cut::Reset(k) => cfg.reset_after = Some(k),
    }
    let (writer_end, reader_end, to_reader, _back) = duplex(cfg, StreamCfg::default());
    let first = split.unwrap_or(msg.bytes.len()).min(msg.bytes.len());
    to_reader.push(&msg.bytes[..first]);
    let mut rest_pending = split.is_some();
    if !endless_mode && !rest_pending {
        to_reader.close();
    }
    let mut fed = msg.bytes.len();
    let feeder = || {
        if rest_pending {
            rest_pending = false;
            to_reader.push(&msg.bytes[first..]);
            if !endless_mode {
                to_reader.close();
            }
            true
        } else if endless_mode && fed < ENDLESS_CAP {
            to_reader.push(&msg.bytes);
            fed += msg.bytes.len();
            true
        } else {
            false
        }
    };
    let what = || format!("{} parser={} class={} cut={cut:?} split={split:?}", msg.name, PARSER_NAMES[parser as usize], CLASS_NAMES[class as usize]);
    let driven: Driven<Outcome> = match parser {
        0 => match drive(Nts::parse_record(reader_end), feeder) {
            Driven::Done(Ok(v)) => Driven::Done(Outcome::Accepted(Value::Rec(v))),
            Driven::Done(Err(e)) => Driven::Done(Outcome::Rejected(format!("IO:{:?}", e.kind()))),
            Driven::Hang => Driven::Hang,
            Driven::Panic(m) => Driven::Panic(m),
        },
        1 => match drive(Nts::parse_request(reader_end), feeder) {
            Driven::Done(Ok(v)) => Driven::Done(Outcome::Accepted(Value::Req(v))),
            Driven::Done(Err(e)) => Driven::Done(Outcome::Rejected(nts_err(&e))),
            Driven::Hang => Driven::Hang,
            Driven::Panic(m) => Driven::Panic(m),
        },
        _ => match drive(Nts::parse_response(reader_end), feeder) {
            Driven::Done(Ok(v)) => Driven::Done(Outcome::Accepted(Value::Resp(v))),
            Driven::Done(Err(e)) => Driven::Done(Outcome::Rejected(nts_err(&e))),
            Driven::Hang => Driven::Hang,
            Driven::Panic(m) => Driven::Panic(m),
        },
    };
    drop(writer_end);
    let consumed = to_reader.read_total();
    let outcome = match driven {
        Driven::Done(o) => {
            check!("C30", "c30-parse-completes-without-panic", true, "");
            check!("C30", "c30-parse-never-hangs", true, "");
            Some(o)
        }
        Driven::Hang => {
            check!(
                "C30",
                "c30-parse-never-hangs",
                false,
                "{}: parse future still pending with nothing left to read (consumed {consumed} of {} bytes, stream {})",
                what(),
                msg.bytes.len(),
                if endless_mode { "endless, 64 KiB fed" } else { "closed" }
            );
            None
        }
        Driven::Panic(m) => {
            check!("C30", "c30-parse-completes-without-panic", false, "{}: parser panicked: {m}", what());
            None
        }
    };
    if parser == 0 && msg.bytes.len() >= 4 {
        if let Some(Outcome::Accepted(_)) = &outcome {
            // framing: an accepted record is its 4-byte header plus exactly the declared body
            let declared = 4 + u16::from_be_bytes([msg.bytes[2], msg.bytes[3]]) as usize;
            check!(
                "C30",
                "c30-accepted-record-consumes-exactly-its-declared-length",
                consumed == declared,
                "{}: the record parser accepted a record after consuming {consumed} bytes, its header declares {declared}",
                what()
            );
        }
    }
    if parser != 0 {
        check!(
            "C30",
            "c30-message-parser-consumes-at-most-4096-bytes",
            consumed <= MAX_MESSAGE,
            "{}: the parser consumed {consumed} bytes of the stream",
            what()
        );
    }
    Delivery { outcome, consumed }
}

const PARSER_NAMES: [&str; 3] = ["record", "request", "response"];

fn serialize_value(v: &Value) -> Result<Vec<u8>, String> {
    let mut out = vec![];
    let r = match v {
        Value::Rec(r) => exec::catch(|| now(Nts::serialize_record(r, &mut out))),
        Value::Req(r) => exec::catch(|| now(Nts::serialize_request(r, &mut out))),
        Value::Resp(r) => exec::catch(|| now(Nts::serialize_response(r, &mut out))),
    };
    match r {
        Ok(Ok(())) => Ok(out),
        Ok(Err(e)) => Err(format!("serialiser error {:?}", e.kind())),
        Err(p) => Err(format!("serialiser panicked: {p}")),
    }
}

fn parse_whole(parser: u64, bytes: &[u8]) -> Result<Value, String> {
    let r = exec::catch(|| match parser {
        0 => now(Nts::parse_record(bytes)).map(Value::Rec).map_err(|e| format!("IO:{:?}", e.kind())),
        1 => now(Nts::parse_request(bytes)).map(Value::Req).map_err(|e| nts_err(&e)),
        _ => now(Nts::parse_response(bytes)).map(Value::Resp).map_err(|e| nts_err(&e)),
    });
    match r {
        Ok(v) => v,
        Err(p) => Err(format!("panicked: {p}")),
    }
}

/// accepted value -> bytes -> value' -> bytes': value == value' and bytes == bytes'
fn check_round_trip(what: &str, parser: u64, class: u64, v: &Value) {
    match serialize_value(v) {
        Err(e) => {
            check!("C30", "c30-accepted-value-reserialises", false, "{what}: accepted value does not re-serialise ({e}): {}", short(v));
        }
        Ok(b2) => {
            check!("C30", "c30-accepted-value-reserialises", true, "");
            // the re-parse also under fragmented delivery (this run's chunking class; 1-byte reads
            // for the unfragmented classes): all bytes arrive, only the read boundaries differ
            {
                let frag_class = if class == 0 || class == 9 { 1 } else { class };
                let tmp = Msg { name: format!("reserialised({what})"), bytes: b2.clone(), endless: false };
                let d = deliver(parser, &tmp, frag_class, Cut::None, false, None);
                match d.outcome {
                    Some(Outcome::Accepted(v2)) => {
                        check!(
                            "C30",
                            "c30-reserialised-bytes-parse-to-same-value",
                            v2 == *v,
                            "{what}: re-serialised bytes delivered as '{}' parse to a different value: first {} second {}",
                            CLASS_NAMES[frag_class as usize],
                            short(v),
                            short(&v2)
                        );
                    }
                    Some(Outcome::Rejected(e)) => {
                        check!(
                            "C30",
                            "c30-reserialised-bytes-parse-to-same-value",
                            false,
                            "{what}: re-serialised bytes (len {}) delivered completely but fragmented as '{}' are rejected ({e}): {}",
                            b2.len(),
                            CLASS_NAMES[frag_class as usize],
                            short(v)
                        );
                    }
                    None => {}
                }
            }
            match parse_whole(parser, &b2) {
                Err(e) => {
                    check!(
                        "C30",
                        "c30-reserialised-bytes-parse-to-same-value",
                        false,
                        "{what}: re-serialised bytes (len {}) of the accepted value are rejected ({e}): {}",
                        b2.len(),
                        short(v)
                    );
                }
                Ok(v2) => {
                    check!(
                        "C30",
                        "c30-reserialised-bytes-parse-to-same-value",
                        v2 == *v,
                        "{what}: re-serialised bytes parse to a different value: first {} second {}",
                        short(v),
                        short(&v2)
                    );
                    match serialize_value(&v2) {
                        Ok(b3) => {
                            check!(
                                "C30",
                                "c30-second-serialisation-identical",
                                b3 == b2,
                                "{what}: second serialisation differs (len {} vs {}): {}",
                                b3.len(),
                                b2.len(),
                                short(v)
                            );
                        }
                        Err(e) => {
                            check!("C30", "c30-second-serialisation-identical", false, "{what}: second serialisation failed ({e})");
                        }
                    }
                }
            }
        }
    }
}

fn short(v: &Value) -> String {
    let s = format!("{v:?}");
    if s.len() > 300 { format!("{}…", &s[..300]) } else { s }
}

// ---------------------------------------------------------------------------
// one enumerated case
// ---------------------------------------------------------------------------

pub fn case_of(index: u64, thorough: bool) -> (u64, u64, u64) {
    let per_msg = N_PARSERS * N_CLASSES;
    let mi = (index / per_msg) % n_messages(thorough);
    let rest = index % per_msg;
    (mi, rest / N_CLASSES, rest % N_CLASSES)
}

pub fn message(base: &[Msg], mi: u64, thorough: bool) -> Msg {
    let nb = base.len() as u64;
    let degen = crate::degen::corpus();
    let nd = degen.len() as u64;
    let per = variants_per_message(thorough);
    if mi < nb {
        base[mi as usize].clone()
    } else if mi < nb + nd {
        degen[(mi - nb) as usize].clone()
    } else if mi >= nb + nd + nb * per {
        // mutated variant of a degenerate message
        let k = mi - (nb + nd + nb * per);
        let perd = variants_per_degenerate(thorough).max(1);
        let di = (k / perd) as usize;
        mutate(&degen[di], 100_000 + di, k % perd)
    } else {
        let k = mi - nb - nd;
        let bi = (k / per) as usize;
        let vi = k % per;
        let b = &base[bi];
        if b.endless {
            // variants of endless streams: the same unit with a different phase
            let shift = 1 + (vi as usize * 7) % 61;
            let mut bytes = b.bytes.clone();
            let by = shift.min(bytes.len().saturating_sub(1));
            bytes.rotate_left(by);
            Msg { name: format!("{}~phase{shift}#{vi}", b.name), bytes, endless: true }
        } else {
            mutate(b, bi, vi)
        }
    }
}

pub fn run() {
    let thorough = simkit::thorough();
    let base = base_corpus();
    if base.len() as u64 != n_base() {
        simkit::abort(format!("parse.rs: corpus size changed between runs ({} vs {})", base.len(), n_base()));
        return;
    }
    let (mi, parser, class) = case_of(simkit::run_index(), thorough);
    let msg = message(&base, mi, thorough);
    let len = msg.bytes.len();
    ev!("case message[{mi}]={} len={len} endless={} parser={} class={}", msg.name, msg.endless, PARSER_NAMES[parser as usize], CLASS_NAMES[class as usize]);
    if len > MAX_MESSAGE {
        fault("oversize-message");
    }
    if msg.endless {
        fault("endless-record-stream");
    }
    if mi >= base.len() as u64 && mi < base.len() as u64 + n_degen() {
        fault("degenerate-well-framed-message");
    } else if mi >= base.len() as u64 {
        fault("mutated-message");
    }

    // the cut offsets: EVERY offset for messages up to 2048 bytes (this covers every message that
    // really flows in a key exchange: the largest is a 1.5 KB response). Larger (synthetic
    // boundary-size / oversize / endless) messages consist of long runs of equivalent positions
    // inside padding or repeated records: every offset in 0..=128 and around the 4096-byte cap
    // (3968..=4104), a stride in between (13, or 53 for the seeded chunking classes whose every
    // read draws from the choice stream), and a sparse tail beyond the cap (a parser that
    // respects the cap cannot observe anything there).
    let offsets: Vec<usize> = if len <= 2048 {
        (0..=len).collect()
    } else {
        let stride = if class == 7 || class == 8 { 53 } else { 13 };
        let mut v: Vec<usize> = (0..=128).collect();
        let mut k = 128 + stride;
        while k < 3968 {
            v.push(k);
            k += stride;
        }
        v.extend(3968..=(MAX_MESSAGE + 8).min(len));
        let mut k = MAX_MESSAGE + 8 + 257;
        while k < len {
            v.push(k);
            k += 257;
        }
        v.extend([len - 1, len]);
        v.sort();
        v.dedup();
        v
    };

    let mut hist: std::collections::BTreeMap<String, u64> = std::collections::BTreeMap::new();
    let mut last_checked: Option<Value> = None;
    let mut first_accept: Option<usize> = None;
    let mut max_consumed = 0usize;
    let mut ops = 0u64;
    // the verdict is a function of the byte stream: what arrives, not how it is chunked. The
    // reference is the unfragmented parse of the same bytes from a slice.
    let verdict_matches = |cut: Cut, split: Option<usize>, got: &Option<Outcome>| {
        let Some(got) = got else { return };
        let reference = match cut {
            Cut::None => parse_whole(parser, &msg.bytes),
            Cut::Eof(k) => parse_whole(parser, &msg.bytes[..k.min(msg.bytes.len())]),
            Cut::Reset(_) => return,
        };
        let same = match (got, &reference) {
            (Outcome::Accepted(a), Ok(b)) => a == b,
            (Outcome::Rejected(a), Err(b)) => a == b,
            _ => false,
        };
        check!(
            "C30",
            "c30-verdict-independent-of-chunking",
            same,
            "{} parser={} class={} cut={cut:?} split={split:?}: delivered through the stream the verdict is {}, the unfragmented parse of the same bytes gives {}",
            msg.name,
            PARSER_NAMES[parser as usize],
            CLASS_NAMES[class as usize],
            match got {
                Outcome::Accepted(v) => format!("Ok({})", short(v)),
                Outcome::Rejected(e) => format!("Err({e})"),
            },
            match &reference {
                Ok(v) => format!("Ok({})", short(v)),
                Err(e) => format!("Err({e})"),
            }
        );
    };
    let mut one = |cut: Cut, endless_mode: bool, split: Option<usize>, hist: &mut std::collections::BTreeMap<String, u64>| {
        let d = deliver(parser, &msg, class, cut, endless_mode, split);
        ops += 1;
        max_consumed = max_consumed.max(d.consumed);
        if !endless_mode {
            verdict_matches(cut, split, &d.outcome);
        }
        match d.outcome {
            Some(Outcome::Accepted(v)) => {
                *hist.entry("accepted".to_string()).or_insert(0) += 1;
                if first_accept.is_none() {
                    if let Cut::Eof(k) | Cut::Reset(k) = cut {
                        first_accept = Some(k);
                    }
                }
                if last_checked.as_ref() != Some(&v) {
                    let what = format!("{} parser={} class={} cut={cut:?}", msg.name, PARSER_NAMES[parser as usize], CLASS_NAMES[class as usize]);
                    check_round_trip(&what, parser, class, &v);
                    last_checked = Some(v);
                }
            }
            Some(Outcome::Rejected(e)) => *hist.entry(e).or_insert(0) += 1,
            None => *hist.entry("VIOLATION".to_string()).or_insert(0) += 1,
        }
    };
    for &k in &offsets {
        let cut = if class == 9 { Cut::Reset(k) } else { Cut::Eof(k) };
        if k < len {
            fault(if class == 9 { "stream-reset-at-k" } else { "stream-eof-at-k-enumerated" });
        }
        one(cut, false, None, &mut hist);
        if simkit::has_violation("C30") {
            break;
        }
    }
    // uncut: closed after the last byte, or (endless streams) refilled on demand up to 64 KiB
    one(Cut::None, msg.endless, None, &mut hist);
    // uncut with exactly one chunk boundary, at EVERY offset (the bytes before it are available
    // at once, the rest arrives only when the parser waits for it); done once per (message,
    // parser), in the unfragmented class
    if class == 0 && !msg.endless && len <= 2048 {
        for j in 0..len {
            fault("stream-single-chunk-boundary-at-j");
            one(Cut::None, false, Some(j), &mut hist);
            if simkit::has_violation("C30") {
                break;
            }
        }
    }
    if hist.contains_key("accepted") {
        probe("c30-some-delivery-accepted");
    }
    ev!("deliveries={ops} first_accepting_cut={first_accept:?} max_consumed={max_consumed} outcomes={hist:?}");
}
