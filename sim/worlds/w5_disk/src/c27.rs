//! C27 world ("W5" in DESIGN.md): the real `ntpd::daemon::nts_key_provider::spawn`
//! (load / fall back to fresh keys / truncate-then-write with mode 0600 / rotate
//! loop in tokio's blocking pool) and the real `ntp_proto::KeySetProvider::{load,
//! store, rotate}` against the simulated disk of hook H10.
//!
//! The rotation loop runs on a real OS thread of tokio's blocking pool. The
//! simulator hands control to it with `Disk::release()` and then *waits* until it
//! sits in its rotation sleep again (`Disk::wait_parked`), so exactly one of the
//! two threads runs at any time and the run is a function of the seed. Fault
//! decisions for the other thread are made beforehand (`Plan`), its operations
//! are recorded and put into the event log afterwards.
//!
//! One run = one enumerated case:
//!   A  crash points: (history, pre-existing file, store number) x every prefix of
//!      the write stream after the truncating open (plus "before the open");
//!   B  clean restarts and I/O fault sequences (ENOSPC/EIO/EINTR/short write on the
//!      k-th write, open errors, read faults during the next load);
//!   C  truncated / corrupted files: every truncation length, header field value
//!      classes, bit rot in every header bit and every key byte.

use std::net::IpAddr;
use std::sync::{Arc, OnceLock};
use std::time::Duration;

use ntp_proto::verif::ts_from_fixed;
use ntp_proto::{
    DecodedServerCookie, FilterAction, FilterList, KeySet, KeySetProvider, NtpPacket, NtpVersion, PollIntervalLimits,
    Server, ServerAction, ServerConfig,
};
use ntpd::verif::keys::{self as simfs, Disk, KeysetConfig, Op, OpenFault, Plan, ReadStep, WriteStep};
use ntpd::verif::observe::ServerStats;
use simkit::rng::{mix, Rng};
use simkit::{check, ev, exec, fault, probe};
use simntp::SimClock;
use tokio::sync::watch;

const P: &str = "C27";
const FILE: &str = "keys.dat";
const REAL_TIMEOUT: Duration = Duration::from_secs(20);

type View = (Vec<Vec<u8>>, u32, u32);

// ---------------------------------------------------------------------------
// enumeration
// ---------------------------------------------------------------------------

#[derive(Clone, Copy, Debug, PartialEq)]
enum Pre {
    None,
    Empty,
    /// a valid file with this many keys, written by an earlier daemon
    Valid(usize),
    Garbage,
}

const PRES: [Pre; 5] = [Pre::None, Pre::Empty, Pre::Valid(1), Pre::Valid(7), Pre::Garbage];
const HISTORIES: [usize; 3] = [1, 0, 3];
const MAX_ROT: usize = 4;

#[derive(Clone, Copy, Debug, PartialEq)]
struct Scenario {
    history: usize,
    pre: Pre,
    /// the store under test is the one after this many rotations (0 = the store at boot)
    rotations: usize,
}

#[derive(Clone, Copy, Debug, PartialEq)]
enum IoFault {
    Clean,
    Enospc(usize),
    Eio(usize),
    Eintr(usize),
    /// (write call, variant 0/1/2 = accept 1 / half / all-but-one)
    Short(usize, u8),
    OpenNotFound,
    OpenDenied,
    LoadShortReads,
    LoadEintr,
    LoadEio(usize),
}

#[derive(Clone, Copy, Debug, PartialEq)]
enum Corrupt {
    Truncate(usize),
    Time(u64),
    IdOffset(u32),
    /// (len, primary)
    LenPrimary(u32, u32),
    Extend(usize),
    /// flip this bit (0..8) of this byte
    Bit(usize, u8),
}

#[derive(Clone, Copy, Debug)]
enum Case {
    /// crash point: None = before the truncating open, Some(c) = after c bytes
    Crash(Scenario, Option<u64>),
    /// (fault on the store under test, one more clean rotation before the restart?)
    Io(Scenario, IoFault, bool),
    /// (history, keys in the base file, corruption)
    Corrupt(usize, usize, Corrupt),
    /// seeded sequence of several faults (choice stream), k-th of the batch
    Seq(u64),
}

/// Number of keys held after the boot load and after each rotation (model of
/// "keep `history` old keys plus the new one").
fn key_counts(s: &Scenario) -> Vec<usize> {
    let mut n = match s.pre {
        Pre::Valid(k) => k,
        _ => 1,
    };
    let mut out = vec![n];
    for _ in 0..s.rotations {
        n = n.min(s.history) + 1;
        out.push(n);
    }
    out
}

fn store_bytes(nkeys: usize) -> u64 {
    20 + 64 * nkeys as u64
}

fn io_faults(nkeys: usize) -> Vec<IoFault> {
    let writes = 4 + nkeys;
    let mut v = vec![IoFault::Clean, IoFault::OpenNotFound, IoFault::OpenDenied, IoFault::LoadShortReads, IoFault::LoadEintr];
    for k in 0..writes {
        v.push(IoFault::Enospc(k));
        v.push(IoFault::Eio(k));
        v.push(IoFault::Eintr(k));
        for var in 0..3 {
            v.push(IoFault::Short(k, var));
        }
    }
    for k in 0..(1 + nkeys) {
        v.push(IoFault::LoadEio(k));
    }
    v
}

fn corruptions(n: usize, thorough: bool) -> Vec<Corrupt> {
    let b = store_bytes(n) as usize;
    let n32 = n as u32;
    let mut v = vec![];
    for l in 0..b {
        v.push(Corrupt::Truncate(l));
    }
    for t in [0u64, 1, 1 << 33, 1 << 62, (1 << 63) - 1, 1 << 63, u64::MAX] {
        v.push(Corrupt::Time(t));
    }
    for o in [0u32, 1, 1 << 31, u32::MAX - n32 + 1, u32::MAX - n32, u32::MAX] {
        v.push(Corrupt::IdOffset(o));
    }
    for len in [0u32, 1, n32.saturating_sub(1), n32, n32 + 1, u32::MAX] {
        for primary in [0u32, len.wrapping_sub(1), len, len.wrapping_add(1), 1 << 31, u32::MAX] {
            v.push(Corrupt::LenPrimary(len, primary));
        }
    }
    v.push(Corrupt::Extend(1));
    v.push(Corrupt::Extend(64));
    for byte in 0..20 {
        for bit in 0..8 {
            v.push(Corrupt::Bit(byte, bit));
        }
    }
    for byte in 20..b {
        if thorough {
            for bit in 0..8 {
                v.push(Corrupt::Bit(byte, bit));
            }
        } else {
            // one bit per key byte, position varying with the byte
            v.push(Corrupt::Bit(byte, (byte % 8) as u8));
        }
    }
    v
}

fn build_cases(thorough: bool) -> Vec<Case> {
    let mut cases = vec![];
    let hs: &[usize] = if thorough { &[1, 0, 3, 2, 8] } else { &HISTORIES };
    let max_rot = if thorough { 6 } else { MAX_ROT };
    const PRES_THOROUGH: [Pre; 7] = [Pre::None, Pre::Empty, Pre::Valid(1), Pre::Valid(7), Pre::Garbage, Pre::Valid(2), Pre::Valid(4)];
    let pres: &[Pre] = if thorough { &PRES_THOROUGH } else { &PRES };
    for &history in hs {
        for &pre in pres {
            for rotations in 0..=max_rot {
                let s = Scenario { history, pre, rotations };
                let n = *key_counts(&s).last().unwrap();
                cases.push(Case::Crash(s, None));
                for c in 0..=store_bytes(n) {
                    cases.push(Case::Crash(s, Some(c)));
                }
            }
        }
    }
    for &history in hs {
        for &pre in pres {
            for rotations in 0..=max_rot {
                let s = Scenario { history, pre, rotations };
                let n = *key_counts(&s).last().unwrap();
                for f in io_faults(n) {
                    cases.push(Case::Io(s, f, false));
                    cases.push(Case::Io(s, f, true));
                }
            }
        }
    }
    let ns: &[usize] = if thorough { &[1, 2, 3, 4, 9] } else { &[1, 2, 4] };
    for &history in if thorough { &[0usize, 1, 3][..] } else { &[1usize, 3][..] } {
        for &n in ns {
            for c in corruptions(n, thorough) {
                cases.push(Case::Corrupt(history, n, c));
            }
        }
    }
    for k in 0..if thorough { 60_000 } else { 4_000 } {
        cases.push(Case::Seq(k));
    }
    cases
}

fn cases(thorough: bool) -> &'static Vec<Case> {
    static QUICK: OnceLock<Vec<Case>> = OnceLock::new();
    static THOROUGH: OnceLock<Vec<Case>> = OnceLock::new();
    if thorough { THOROUGH.get_or_init(|| build_cases(true)) } else { QUICK.get_or_init(|| build_cases(false)) }
}

pub fn enumerate(thorough: bool) -> u64 {
    cases(thorough).len() as u64
}

// ---------------------------------------------------------------------------
// cookies and the NTS server (independent use of a key set)
// ---------------------------------------------------------------------------

#[derive(Clone, Debug)]
struct Cookie {
    bytes: Vec<u8>,
    wide: bool,
    s2c: Vec<u8>,
    c2s: Vec<u8>,
}

fn session(c: &Cookie) -> DecodedServerCookie {
    DecodedServerCookie::verif_disk_new(c.wide, &c.s2c, &c.c2s)
}

/// Issue a cookie for random session keys (what the key-exchange server does).
fn issue(ks: &KeySet, r: &mut Rng) -> Result<Cookie, String> {
    let wide = r.below(2) == 1;
    let w = if wide { 64 } else { 32 };
    let s2c: Vec<u8> = (0..w).map(|_| r.next_u64() as u8).collect();
    let c2s: Vec<u8> = (0..w).map(|_| r.next_u64() as u8).collect();
    let mut c = Cookie { bytes: vec![], wide, s2c, c2s };
    c.bytes = exec::catch(|| ks.verif_disk_encode_cookie(&session(&c)))?;
    Ok(c)
}

/// Does the cookie decode under `ks` to exactly its session keys? Err = panic.
fn decodes(ks: &KeySet, c: &Cookie) -> Result<bool, String> {
    exec::catch(|| match ks.verif_disk_decode_cookie(&c.bytes) {
        Some(d) => d.s2c.key_bytes() == &c.s2c[..] && d.c2s.key_bytes() == &c.c2s[..] && d.verif_disk_algorithm() == if c.wide { 17 } else { 15 },
        None => false,
    })
}

/// Present the cookie in an NTS request to a real `Server` that uses `ks`.
/// Ok(true) = time was provided in a valid authenticated response carrying a
/// fresh cookie that decodes to the same session; Err = panic.
fn serve(ks: Arc<KeySet>, c: &Cookie) -> Result<bool, String> {
    let config = ServerConfig {
        denylist: FilterList { filter: vec![], action: FilterAction::Deny },
        allowlist: FilterList { filter: vec!["0.0.0.0/0".parse().unwrap()], action: FilterAction::Ignore },
        rate_limiting_cache_size: 0,
        rate_limiting_cutoff: Duration::from_millis(100),
        require_nts: Some(FilterAction::Ignore),
        accepted_versions: vec![NtpVersion::V4],
    };
    let clock = SimClock::new("server", 0xE000_0000_0000_0000, 0.0, 0.0);
    let keys = session(c);
    let (packet, id) = NtpPacket::nts_poll_message(&c.bytes, 1, PollIntervalLimits::default().min);
    let mut req = vec![0u8; 1024];
    let n = {
        let mut cur = std::io::Cursor::new(&mut req[..]);
        packet.serialize(&mut cur, keys.c2s.as_ref(), None).map_err(|e| format!("harness: request does not serialize: {e}"))?;
        cur.position() as usize
    };
    req.truncate(n);
    let ks2 = ks.clone();
    exec::catch(move || {
        let mut server = Server::new_internal(config, clock, Arc::default(), ks2.clone());
        let mut stats = ServerStats::default();
        let mut out = vec![0u8; 1024];
        let ip: IpAddr = "127.0.0.1".parse().unwrap();
        let action = server.handle(ip, ts_from_fixed(0xE000_0000_0000_0000), &req, &mut out, &mut stats);
        let data = match action {
            ServerAction::Ignore => return false,
            ServerAction::Respond { message } => message.to_vec(),
        };
        if stats.accepted_packets.get() != 1 || stats.nts_accepted_packets.get() != 1 {
            return false;
        }
        let Ok((resp, _)) = NtpPacket::deserialize(&data, keys.s2c.as_ref()) else {
            return false;
        };
        if !resp.valid_server_response(id, true) || resp.is_kiss() {
            return false;
        }
        let fresh: Vec<Vec<u8>> = resp.new_cookies().collect();
        if fresh.is_empty() {
            return false;
        }
        fresh.iter().all(|b| match ks2.verif_disk_decode_cookie(b) {
            Some(d) => d.s2c.key_bytes() == keys.s2c.key_bytes() && d.c2s.key_bytes() == keys.c2s.key_bytes(),
            None => false,
        })
    })
}

/// The complete "use it" exercise of clause (c) / (a): issue, decode, serve.
fn exercise(what: &str, ks: &Arc<KeySet>, r: &mut Rng, detail: &str) -> bool {
    let view = ks.verif_disk_view();
    let class = if view.2 as usize == view.0.len() {
        "class=primary-equals-key-count"
    } else if view.2 as usize > view.0.len() {
        "class=primary-beyond-key-count"
    } else {
        "class=primary-in-range"
    };
    let shape = format!("{what}: keys={} primary={} id_offset={} {class} [{detail}]", view.0.len(), view.2, view.1);
    match issue(ks, r) {
        Err(msg) => {
            check!(P, "use-no-panic", false, "encode_cookie panicked ({msg}) on the key set the daemon runs with; {shape}");
            false
        }
        Ok(c) => {
            check!(P, "use-no-panic", true, "");
            match decodes(ks, &c) {
                Err(msg) => check!(P, "use-no-panic", false, "decode_cookie panicked ({msg}); {shape}"),
                Ok(ok) => check!(P, "use-issue-decode", ok, "a cookie just issued does not decode to its session keys; {shape}"),
            }
            match serve(ks.clone(), &c) {
                Err(msg) => check!(P, "use-no-panic", false, "Server::handle panicked ({msg}) on an NTS request; {shape}"),
                Ok(ok) => check!(P, "use-serve-nts", ok, "NTS request with a just-issued cookie did not get an authenticated time response; {shape}"),
            }
            true
        }
    }
}

// ---------------------------------------------------------------------------
// the daemon process around the real provider
// ---------------------------------------------------------------------------

struct Proc {
    rx: Option<watch::Receiver<Arc<KeySet>>>,
    disk: Arc<Disk>,
    loop_dead: bool,
}

fn log_ops(disk: &Disk) {
    let ops = disk.take_ops();
    for (idx, op) in ops.iter().cloned().enumerate() {
        let cut_by_crash = matches!(ops.get(idx + 1), Some(Op::Crash { .. }));
        match op {
            Op::OpenRead { file, found, len } => ev!("fs open-read {file} found={found} len={len}"),
            Op::OpenWrite { file, create, truncate, mode, created, old_len, err } => {
                ev!("fs open-write {file} create={create} truncate={truncate} mode={:o} created={created} old_len={old_len} err={err:?}", mode.unwrap_or(0))
            }
            Op::Write { file, offered, accepted, err } => {
                match err {
                    Some("ENOSPC") => fault("disk-enospc"),
                    Some("EIO") => fault("disk-eio"),
                    Some("EINTR") => fault("disk-eintr"),
                    _ if accepted < offered && cut_by_crash => fault("torn-write"),
                    _ if accepted < offered => fault("disk-short-write"),
                    _ => {}
                }
                ev!("fs write {file} offered={offered} accepted={accepted} err={err:?}")
            }
            Op::Read { file, asked, got, err } => {
                match err {
                    Some("EIO") => fault("disk-read-eio"),
                    Some("EINTR") => fault("disk-read-eintr"),
                    _ => {}
                }
                ev!("fs read {file} asked={asked} got={got} err={err:?}")
            }
            Op::Close { file, writable } => ev!("fs close {file} writable={writable}"),
            Op::Crash { file, bytes_after_open } => {
                fault("crash-at-prefix");
                ev!("fs CRASH {file} bytes_after_open={bytes_after_open}")
            }
            Op::Zombie { what } => ev!("fs zombie-op {what}"),
            Op::Park { .. } => ev!("provider parked in rotation sleep"),
        }
    }
}

impl Proc {
    /// Start a daemon's key provider: the real `spawn` (load or fresh keys, then
    /// the rotation loop's first store), until the loop sits in its sleep.
    async fn start(disk: &Arc<Disk>, cfg: &KeysetConfig, seq: u64, plan: Plan) -> Option<Proc> {
        disk.thaw();
        disk.set_plan(plan);
        let seed = mix(&[simkit::seed(), 0x70726f63, seq]);
        disk.set_on_release(Arc::new(move |n| rand::verif_seed(mix(&[seed, n]))));
        ev!("daemon start #{seq}");
        let rx = simfs::spawn_key_provider(cfg.clone()).await;
        let mut p = Proc { rx: Some(rx), disk: disk.clone(), loop_dead: false };
        p.wait_parked();
        if simkit::with(|s| s.aborted.is_some()) {
            return None;
        }
        Some(p)
    }

    /// Wait until the loop thread is parked again, or notice that it died.
    fn wait_parked(&mut self) {
        let t0 = std::time::Instant::now();
        loop {
            if self.disk.wait_parked(Duration::from_millis(5)).is_some() {
                break;
            }
            if self.rx.as_ref().map(|r| r.has_changed().is_err()).unwrap_or(true) {
                // the sender is gone although we still listen: the loop thread panicked
                self.loop_dead = true;
                break;
            }
            if t0.elapsed() > REAL_TIMEOUT {
                simkit::abort("harness: rotation loop neither parked nor ended".into());
                self.loop_dead = true;
                break;
            }
        }
        log_ops(&self.disk);
    }

    fn current(&self) -> Arc<KeySet> {
        self.rx.as_ref().expect("live process").borrow().clone()
    }

    /// The rotation interval elapses: the loop rotates, stores, publishes and sleeps again.
    fn rotate(&mut self) {
        if self.loop_dead {
            return;
        }
        ev!("rotation interval elapses");
        self.disk.release();
        self.wait_parked();
    }

    /// The process ends (SIGKILL / crash / shutdown: the provider has no shutdown
    /// path of its own). Whatever its threads still attempt has no effect.
    fn kill(self) {
        drop(self)
    }
}

impl Drop for Proc {
    fn drop(&mut self) {
        // also runs on early returns and unwinding: a rotation loop left parked would
        // block the runtime's shutdown forever
        self.disk.freeze();
        self.rx = None;
        if !self.loop_dead {
            self.disk.release();
            if !self.disk.wait_zombie_ops(1, REAL_TIMEOUT) {
                simkit::abort("harness: zombie rotation loop did not end".into());
            }
        }
        log_ops(&self.disk);
        ev!("daemon process gone");
    }
}

fn disjoint(a: &View, b: &View) -> bool {
    a.0.iter().all(|k| !b.0.contains(k))
}

/// A valid key file as an earlier daemon (with enough history) would have left it.
fn valid_file(nkeys: usize) -> (Vec<u8>, View) {
    let mut p = KeySetProvider::new(nkeys.max(1) - 1);
    for _ in 1..nkeys {
        p.rotate();
    }
    let mut out = vec![];
    p.store(&mut out).expect("store into memory");
    (out, p.get().verif_disk_view())
}

fn put_pre(disk: &Disk, pre: Pre, r: &mut Rng) -> Option<View> {
    match pre {
        Pre::None => None,
        Pre::Empty => {
            disk.put_file(FILE, vec![], 0o600);
            None
        }
        Pre::Valid(n) => {
            let (bytes, view) = valid_file(n);
            disk.put_file(FILE, bytes, 0o600);
            Some(view)
        }
        Pre::Garbage => {
            let len = 21 + r.below(180) as usize; // too short for the 3 keys its header announces
            let mut bytes: Vec<u8> = (0..len).map(|_| r.next_u64() as u8).collect();
            // plausible header so that the loader gets past it: len field small
            bytes[16..20].copy_from_slice(&3u32.to_be_bytes());
            bytes[12..16].copy_from_slice(&1u32.to_be_bytes());
            // a time field >= 2^63 makes load panic (established by the corrupted-file cases); not the point here
            bytes[0] &= 0x7f;
            disk.put_file(FILE, bytes, 0o644);
            None
        }
    }
}

// ---------------------------------------------------------------------------
// cases A and B
// ---------------------------------------------------------------------------

#[derive(Clone, Debug, Default)]
struct Faults {
    /// None = no crash; Some(None) = before the open; Some(Some(c)) = after c bytes
    crash: Option<Option<u64>>,
    write_script: Vec<WriteStep>,
    open_fault: Option<OpenFault>,
    /// faults while the restarted daemon loads the file
    read_script: Vec<ReadStep>,
    /// the crash point may lie behind an earlier I/O error (random sequences only)
    crash_may_miss: bool,
}

impl Faults {
    fn store_faulted(&self) -> bool {
        self.crash.is_some() || self.open_fault.is_some() || self.write_script.iter().any(|w| *w != WriteStep::Full)
    }
    fn load_fails(&self) -> bool {
        self.read_script.contains(&ReadStep::Eio)
    }
    fn plan(&self) -> Plan {
        let mut plan = Plan::default();
        match self.crash {
            Some(None) => plan.crash_before_open = true,
            Some(Some(c)) => plan.crash_after_bytes = Some(c),
            None => {}
        }
        plan.write_script = self.write_script.clone();
        plan.open_write_fault = self.open_fault;
        plan
    }
}

/// The single-fault cases of section B as a fault description (`nkeys` = keys written by the store under test).
fn faults_of(io: IoFault, nkeys: usize) -> Faults {
    let mut f = Faults::default();
    let lens: Vec<usize> = [8usize, 4, 4, 4].into_iter().chain(std::iter::repeat(64).take(nkeys)).collect();
    let at = |k: usize, step: WriteStep| {
        let mut v = vec![WriteStep::Full; k];
        v.push(step);
        v
    };
    match io {
        IoFault::Clean => {}
        IoFault::Enospc(k) => f.write_script = at(k, WriteStep::Enospc),
        IoFault::Eio(k) => f.write_script = at(k, WriteStep::Eio),
        IoFault::Eintr(k) => f.write_script = at(k, WriteStep::Eintr),
        IoFault::Short(k, var) => {
            let l = lens.get(k).copied().unwrap_or(64);
            f.write_script = at(
                k,
                WriteStep::Short(match var {
                    0 => 1,
                    1 => l / 2,
                    _ => l - 1,
                }),
            );
        }
        IoFault::OpenNotFound => f.open_fault = Some(OpenFault::NotFound),
        IoFault::OpenDenied => f.open_fault = Some(OpenFault::PermissionDenied),
        IoFault::LoadShortReads => f.read_script = (0..40).map(|k| ReadStep::Short(1 + k % 7)).collect(),
        IoFault::LoadEintr => f.read_script = vec![ReadStep::Eintr, ReadStep::Full, ReadStep::Eintr, ReadStep::Short(3), ReadStep::Eintr],
        IoFault::LoadEio(k) => {
            f.read_script = vec![ReadStep::Full; k];
            f.read_script.push(ReadStep::Eio);
        }
    }
    f
}

async fn run_lifecycle(disk: Arc<Disk>, s: Scenario, f: Faults, extra_rotation: bool) {
    let mut r = Rng::new(mix(&[simkit::seed(), 0x636f6f6b]));
    let cfg = KeysetConfig { stale_key_count: s.history, key_rotation_interval: 86_400, key_storage_path: Some(disk.path(FILE)) };
    let pre_view = put_pre(&disk, s.pre, &mut r);
    let counts = key_counts(&s);
    let crash = f.crash;
    ev!("faults: crash={:?} writes={:?} open={:?} reads={:?}", f.crash, f.write_script, f.open_fault, f.read_script);

    // ---- first life ---------------------------------------------------------
    let mut stored: Vec<View> = vec![]; // key sets handed to store(), in order
    let mut cookies: Vec<Cookie> = vec![];
    let target = s.rotations;
    let boot_plan = if target == 0 { f.plan() } else { Plan::default() };
    let Some(mut p) = Proc::start(&disk, &cfg, 0, boot_plan).await else { return };
    let mut completed: Vec<bool> = vec![]; // did store i run to completion
    for i in 0..=target {
        if i > 0 {
            if i == target {
                disk.set_plan(f.plan());
            }
            p.rotate();
        }
        if p.loop_dead {
            check!(P, "use-no-panic", false, "the provider's rotation loop died (panic) at store {i}");
            return;
        }
        let ks = p.current();
        let view = ks.verif_disk_view();
        ev!("store {i}: keys={} primary={} id_offset={}", view.0.len(), view.2, view.1);
        if view.0.len() != counts[i] {
            simkit::abort(format!("harness: key count model {} vs real {}", counts[i], view.0.len()));
            return;
        }
        if i == 0 {
            // boot: what was loaded (or fresh keys)
            match (&pre_view, s.pre) {
                (Some(pv), _) => check!(P, "restart-restores-stored-set", &view == pv, "boot with an intact file of {} keys loaded keys={} primary={} id_offset={}", pv.0.len(), view.0.len(), view.2, view.1),
                _ => {}
            }
        }
        stored.push(view);
        let file = disk.file(FILE);
        let is_target = i == target;
        let faulted = is_target && f.store_faulted();
        if !faulted {
            // a store that met no fault must leave exactly the stored set on disk, mode 0600 if created
            let mut mem = vec![];
            let ok = match &file {
                Some(f) => {
                    mem = f.data.clone();
                    f.data.len() as u64 == store_bytes(counts[i])
                }
                None => false,
            };
            check!(P, "store-writes-whole-set", ok, "after a fault-free store {i} the file has {} bytes, expected {}", mem.len(), store_bytes(counts[i]));
            completed.push(ok);
        } else {
            let len = file.as_ref().map(|f| f.data.len() as u64).unwrap_or(0);
            completed.push(len == store_bytes(counts[i]) && f.open_fault.is_none());
        }
        if i == 0 && s.pre == Pre::None {
            if let Some(f) = &file {
                check!(P, "created-file-mode-0600", f.mode == 0o600, "newly created key file has mode {:o}", f.mode);
            }
        }
        if !disk.frozen() {
            match issue(&ks, &mut r) {
                Ok(c) => cookies.push(c),
                Err(msg) => check!(P, "use-no-panic", false, "encode_cookie panicked on the running daemon's key set: {msg}"),
            }
        }
    }
    let crashed = disk.frozen();
    if crash.is_some() && !crashed && !f.crash_may_miss {
        // crash point beyond the end of the write stream cannot happen (enumeration bound)
        simkit::abort("harness: planned crash did not fire".into());
    }
    let mut last_completed = *completed.last().unwrap();
    if extra_rotation && !crashed {
        disk.set_plan(Plan::default());
        p.rotate();
        let ks = p.current();
        let view = ks.verif_disk_view();
        ev!("extra store: keys={} primary={} id_offset={}", view.0.len(), view.2, view.1);
        stored.push(view);
        let len = disk.file(FILE).map(|f| f.data.len()).unwrap_or(0);
        let n = stored.last().unwrap().0.len();
        check!(P, "store-writes-whole-set", len as u64 == store_bytes(n), "after a fault-free store following a failed one the file has {len} bytes, expected {}", store_bytes(n));
        last_completed = len as u64 == store_bytes(n);
        if let Ok(c) = issue(&ks, &mut r) {
            cookies.push(c);
        }
    }
    let final_set = p.current();
    let final_view = final_set.verif_disk_view();
    // which cookies were valid just before the process went away
    let mut valid_before = vec![];
    for c in &cookies {
        valid_before.push(decodes(&final_set, c).unwrap_or(false));
    }
    p.kill();

    // ---- second life --------------------------------------------------------
    let plan = Plan { read_script: f.read_script.clone(), ..Plan::default() };
    let Some(mut p2) = Proc::start(&disk, &cfg, 1, plan).await else { return };
    let loaded_set = p2.current();
    let loaded = loaded_set.verif_disk_view();
    ev!("restart: keys={} primary={} id_offset={}", loaded.0.len(), loaded.2, loaded.1);

    let in_progress = stored.last().unwrap();
    let is_last = &loaded == in_progress;
    // "completed earlier": only a store whose file was never truncated again can still be on disk,
    // i.e. the previous one when the crash came before the truncating open
    // the file was never truncated by the store under test: crash before the open, or the open itself failed
    let untruncated = (crash == Some(None) && crashed) || (!extra_rotation && f.open_fault.is_some());
    let prev_ok = untruncated && stored.len() >= 2 && &loaded == &stored[stored.len() - 2];
    let prev_file_ok = untruncated && stored.len() == 1 && pre_view.as_ref() == Some(&loaded);
    if prev_ok || prev_file_ok {
        probe("restart-restored-previous-store");
    }
    let everything: Vec<&View> = stored.iter().chain(pre_view.iter()).collect();
    let fresh = everything.iter().all(|v| disjoint(&loaded, v));
    if fresh {
        probe("restart-fresh-keys");
    } else if is_last {
        probe("restart-restored-last");
    }
    check!(
        P,
        "restart-exact-or-fresh",
        is_last || prev_ok || prev_file_ok || fresh,
        "after {} the restarted daemon runs with keys={} primary={} id_offset={}, which is neither the set being stored (keys={} primary={} id_offset={}) nor fresh (shares a key with an earlier set)",
        if crashed { "a crash during the store" } else { "a restart" },
        loaded.0.len(),
        loaded.2,
        loaded.1,
        in_progress.0.len(),
        in_progress.2,
        in_progress.1
    );
    let load_faulted = f.load_fails();
    if last_completed && !load_faulted && !untruncated {
        check!(
            P,
            "restart-restores-stored-set",
            is_last,
            "the last store completed ({} bytes on disk) but the restarted daemon runs with keys={} primary={} id_offset={} instead of keys={} primary={} id_offset={}",
            disk.file(FILE).map(|f| f.data.len()).unwrap_or(0),
            loaded.0.len(),
            loaded.2,
            loaded.1,
            in_progress.0.len(),
            in_progress.2,
            in_progress.1
        );
        // (a) cookies that were valid before the restart stay valid
        if is_last && final_view == *in_progress {
            for (i, c) in cookies.iter().enumerate() {
                if valid_before[i] {
                    let after = decodes(&loaded_set, c);
                    check!(P, "restart-cookies-stay-valid", after == Ok(true), "cookie #{i} decoded before the restart but not after it: {after:?}");
                }
            }
            if let Some((_, c)) = cookies.iter().enumerate().rev().find(|(i, _)| valid_before[*i]) {
                let served = serve(loaded_set.clone(), c);
                check!(P, "restart-cookies-get-time", served == Ok(true), "the newest cookie that was valid before the restart does not get time afterwards: {served:?}");
            }
        }
    }
    // whatever was restored or created must be usable, and the daemon must be able to go on
    exercise("after restart", &loaded_set, &mut r, "lifecycle");
    p2.rotate();
    if p2.loop_dead {
        check!(P, "use-no-panic", false, "the provider's rotation loop died (panic) on the first rotation after the restart");
    } else {
        let next = p2.current();
        exercise("after restart + rotation", &next, &mut r, "lifecycle");
        let len = disk.file(FILE).map(|f| f.data.len()).unwrap_or(0);
        check!(P, "store-writes-whole-set", len as u64 == store_bytes(next.verif_disk_view().0.len()), "store after restart left {len} bytes");
    }
    p2.kill();
}

// ---------------------------------------------------------------------------
// case D: seeded fault sequences (several faults in one store, then faults in the load)
// ---------------------------------------------------------------------------

async fn run_sequence(disk: Arc<Disk>) {
    use simkit::{chance, choose, weighted};
    let s = Scenario {
        history: [1usize, 0, 3, 2][choose("seq.history", 4) as usize],
        pre: PRES[choose("seq.pre", PRES.len() as u64) as usize],
        rotations: choose("seq.rotations", MAX_ROT as u64 + 1) as usize,
    };
    let n = *key_counts(&s).last().unwrap();
    let mut f = Faults { crash_may_miss: true, ..Faults::default() };
    let faulty = chance("seq.faulty", 0.75);
    if faulty {
        match weighted("seq.crash", &[5, 1, 4]) {
            1 => f.crash = Some(None),
            2 => f.crash = Some(Some(choose("seq.crash-at", store_bytes(n) + 1))),
            _ => {}
        }
        let steps = choose("seq.write-steps", (4 + n as u64) * 3);
        for _ in 0..steps {
            f.write_script.push(match weighted("seq.write-step", &[6, 3, 2]) {
                1 => WriteStep::Short(1 + choose("seq.short-n", 63) as usize),
                2 => WriteStep::Eintr,
                _ => WriteStep::Full,
            });
        }
        if chance("seq.write-error", 0.3) {
            let at = choose("seq.write-error-at", f.write_script.len() as u64 + 1) as usize;
            f.write_script.truncate(at);
            f.write_script.push(if chance("seq.eio", 0.5) { WriteStep::Eio } else { WriteStep::Enospc });
        }
        if chance("seq.open-fault", 0.05) {
            f.open_fault = Some(if chance("seq.open-eacces", 0.5) { OpenFault::PermissionDenied } else { OpenFault::NotFound });
        }
        let rsteps = choose("seq.read-steps", 12);
        for _ in 0..rsteps {
            f.read_script.push(match weighted("seq.read-step", &[4, 4, 2]) {
                1 => ReadStep::Short(1 + choose("seq.read-short-n", 63) as usize),
                2 => ReadStep::Eintr,
                _ => ReadStep::Full,
            });
        }
        if chance("seq.read-error", 0.1) {
            let at = choose("seq.read-error-at", f.read_script.len() as u64 + 1) as usize;
            f.read_script.truncate(at);
            f.read_script.push(ReadStep::Eio);
        }
    }
    let extra = faulty && chance("seq.extra-rotation", 0.3);
    ev!("sequence scenario {s:?} extra_rotation={extra}");
    run_lifecycle(disk, s, f, extra).await
}

// ---------------------------------------------------------------------------
// case C
// ---------------------------------------------------------------------------

fn corrupt_file(base: &[u8], c: Corrupt) -> Vec<u8> {
    let mut f = base.to_vec();
    match c {
        Corrupt::Truncate(l) => f.truncate(l),
        Corrupt::Time(t) => f[0..8].copy_from_slice(&t.to_be_bytes()),
        Corrupt::IdOffset(o) => f[8..12].copy_from_slice(&o.to_be_bytes()),
        Corrupt::LenPrimary(len, primary) => {
            f[12..16].copy_from_slice(&primary.to_be_bytes());
            f[16..20].copy_from_slice(&len.to_be_bytes());
        }
        Corrupt::Extend(n) => f.extend(std::iter::repeat(0xA5).take(n)),
        Corrupt::Bit(byte, bit) => f[byte] ^= 1 << bit,
    }
    f
}

fn header_of(f: &[u8], time_set: bool) -> String {
    if f.len() < 20 {
        return format!("file of {} bytes (shorter than the 20-byte header)", f.len());
    }
    let time = u64::from_be_bytes(f[0..8].try_into().unwrap());
    let id_offset = u32::from_be_bytes(f[8..12].try_into().unwrap());
    let primary = u32::from_be_bytes(f[12..16].try_into().unwrap());
    let len = u32::from_be_bytes(f[16..20].try_into().unwrap());
    // the time field of an uncorrupted file is the wall clock: keep it out of the detail unless it was set
    let t = if time_set { format!("{time:#x}") } else { "wallclock".into() };
    format!("file of {} bytes, header time={t} id_offset={id_offset:#x} primary={primary} len={len}, {} key bytes follow", f.len(), f.len() - 20)
}

async fn run_corrupt(disk: Arc<Disk>, history: usize, nkeys: usize, c: Corrupt) {
    let mut r = Rng::new(mix(&[simkit::seed(), 0x636f7272]));
    let (base, base_view) = valid_file(nkeys);
    let bytes = corrupt_file(&base, c);
    let what = format!("{} <- {c:?} of a valid {nkeys}-key file", header_of(&bytes, matches!(c, Corrupt::Time(_))));
    match c {
        Corrupt::Truncate(_) => fault("truncate-file"),
        Corrupt::Bit(b, _) if b >= 20 => fault("bitrot-key"),
        Corrupt::Extend(_) => fault("extend-file"),
        _ => fault("bitrot-header"),
    }
    ev!("corrupt {c:?}: {}", what);
    disk.put_file(FILE, bytes.clone(), 0o600);

    // the real load on exactly these bytes, directly: a panic here is a daemon abort at start-up
    // (the workspace builds with panic=abort; under the simulator tokio's spawn_blocking would hide it)
    let path = disk.path(FILE);
    let direct = exec::catch(|| {
        let mut input = simfs::File::open(&path)?;
        KeySetProvider::load(&mut input, history).map(|(p, _)| p.get().verif_disk_view())
    });
    log_ops(&disk);
    let load_panicked = match &direct {
        Err(msg) => {
            check!(P, "load-no-panic", false, "KeySetProvider::load panicked ({msg}) on {what} (corruption {c:?})");
            true
        }
        Ok(res) => {
            check!(P, "load-no-panic", true, "");
            ev!("direct load: {}", match res { Ok(v) => format!("accepted keys={} primary={} id_offset={:#x}", v.0.len(), v.2, v.1), Err(e) => format!("rejected ({:?})", e.kind()) });
            false
        }
    };
    if load_panicked {
        return;
    }
    let cfg = KeysetConfig { stale_key_count: history, key_rotation_interval: 86_400, key_storage_path: Some(disk.path(FILE)) };
    let Some(mut p) = Proc::start(&disk, &cfg, 0, Plan::default()).await else { return };
    if p.loop_dead {
        check!(P, "use-no-panic", false, "the provider's rotation loop died (panic) at the first store; {what}");
        return;
    }
    let ks = p.current();
    let view = ks.verif_disk_view();
    let accepted = matches!(&direct, Ok(Ok(_)));
    if accepted {
        probe("corrupt-file-accepted");
        if let Ok(Ok(v)) = &direct {
            check!(P, "spawn-runs-with-loaded-set", &view == v, "spawn runs with keys={} primary={} but load returned keys={} primary={}", view.0.len(), view.2, v.0.len(), v.2);
        }
    } else {
        probe("corrupt-file-rejected");
        check!(P, "rejected-means-fresh", disjoint(&view, &base_view) && view.0.len() == 1, "the file was rejected but the daemon runs with keys={} sharing a key with the file", view.0.len());
    }
    ev!("daemon runs with keys={} primary={} id_offset={:#x}", view.0.len(), view.2, view.1);
    let usable = exercise("after loading", &ks, &mut r, &what);
    // the daemon goes on: one rotation (and its store)
    p.rotate();
    if p.loop_dead {
        check!(P, "use-no-panic", false, "KeySetProvider::rotate/store panicked in the rotation loop; {what}");
    } else if usable {
        let next = p.current();
        exercise("after loading + rotation", &next, &mut r, &what);
    }
    p.kill();
}

// ---------------------------------------------------------------------------

pub fn run() {
    simntp::reset_hooks();
    let thorough = simkit::thorough();
    let all = cases(thorough);
    let case = all[(simkit::run_index() % all.len() as u64) as usize];
    let id = format!("{:016x}-{}", simkit::seed(), simkit::run_index());
    let disk = simfs::mount(&id);
    ev!("c27 case {case:?} (of {} cases)", all.len());
    let d2 = disk.clone();
    exec::block_on(async move {
        match case {
            Case::Crash(s, c) => run_lifecycle(d2, s, Faults { crash: Some(c), ..Faults::default() }, false).await,
            Case::Io(s, io, extra) => {
                let n = *key_counts(&s).last().unwrap();
                run_lifecycle(d2, s, faults_of(io, n), extra).await
            }
            Case::Seq(_) => run_sequence(d2).await,
            Case::Corrupt(h, n, c) => run_corrupt(d2, h, n, c).await,
        }
    });
    for (task, msg) in exec::crashes() {
        check!(P, "use-no-panic", false, "task {task} panicked: {msg}");
    }
    simfs::unmount(&id);
    ntp_proto::verif::clear();
}
