//! C38 world ("W6" in DESIGN.md): the real `ntpd::daemon::sockets::{write_json, read_json}`
//! over a simulated byte stream, on `ObservableState` values built from an
//! independent plain specification (`Spec`). The fault point is the chunking of
//! the framed message: every split position of the 8-byte length prefix and of
//! the payload, EOF at every offset, small read chunks with spurious `Pending`,
//! short writes of the real writer, and adversarial announced lengths.
//!
//! One run = one (state, fault case) pair; `run_index` enumerates them.

use std::cell::RefCell;
use std::net::{IpAddr, Ipv4Addr, Ipv6Addr, SocketAddr, SocketAddrV6};
use std::rc::Rc;
use std::sync::OnceLock;

use ntp_proto::verif::{clock_id_from_raw, clock_id_raw, dur_from_fixed, dur_to_fixed, ts_from_fixed, ts_to_fixed};
use ntp_proto::{
    NtpLeapIndicator, ObservableSourceState, ObservableSourceTimedata, PollInterval, ReferenceId, ServerReason,
    ServerResponse, ServerStatHandler, SystemSnapshot,
};
use ntpd::verif::observe::{read_json, write_json, Counter, ObservableServerState, ObservableState, ProgramData, ServerStats};
use simkit::rng::{mix, Rng};
use simkit::stream::{duplex, StreamCfg};
use simkit::{check, ev, exec, fault, probe};

const P: &str = "C38";
const MAX_MSG: u64 = 1 << 20;

// ---------------------------------------------------------------------------
// plain specification of a state (what the daemon "means" to publish)
// ---------------------------------------------------------------------------

#[derive(Clone, Debug)]
struct SrcSpec {
    offset: i64,
    uncertainty: i64,
    delay: i64,
    remote_delay: i64,
    remote_uncertainty: i64,
    last_update: u64,
    unanswered: u32,
    poll: i8,
    cookies: Option<usize>,
    name: String,
    address: String,
    id: u64,
}

#[derive(Clone, Debug)]
struct SrvSpec {
    addr: SocketAddr,
    /// received, accepted, denied, ignored, rate_limited, response_send_errors,
    /// nts_received, nts_accepted, nts_denied, nts_rate_limited, nts_nak
    counters: [u64; 11],
    /// counters were produced by real `register` calls (small values) instead of deserialisation
    registered: bool,
}

#[derive(Clone, Debug)]
struct Spec {
    default_program: bool,
    version: String,
    build_commit: String,
    build_commit_date: String,
    uptime: f64,
    now: u64,
    precision: i64,
    root_delay: i64,
    rv_base_time: u64,
    rv: [f64; 4],
    leap: u8,
    acc_steps: i64,
    acc_thr: Option<i64>,
    stratum: u8,
    refid: u32,
    sources: Vec<SrcSpec>,
    servers: Vec<SrvSpec>,
}

const LEAPS: [NtpLeapIndicator; 5] = [
    NtpLeapIndicator::NoWarning,
    NtpLeapIndicator::Leap61,
    NtpLeapIndicator::Leap59,
    NtpLeapIndicator::Unknown,
    NtpLeapIndicator::Unsynchronized,
];

fn pick_i64(r: &mut Rng) -> i64 {
    // durations in 2^-32 s units: boundary values and magnitudes from sub-ns to decades
    match r.below(16) {
        0 => 0,
        1 => 1,
        2 => -1,
        3 => i64::MAX,
        4 => i64::MIN,
        5 => i64::MAX - r.below(1 << 33) as i64,
        6 => i64::MIN + r.below(1 << 33) as i64,
        7 => (1i64 << 32) * (r.below(1 << 31) as i64) + (u32::MAX as i64 - r.below(4) as i64),
        8 => -((1i64 << 32) * (r.below(1 << 31) as i64)) - r.below(4) as i64,
        9 => (i32::MAX as i64) << 32 | r.below(1 << 32) as i64,
        10 => ((i32::MIN as i64) << 32) + r.below(1 << 32) as i64,
        11 => r.below(1 << 22) as i64,            // < 1 ms
        12 => -(r.below(1 << 32) as i64),         // > -1 s
        13 => r.below(1 << 44) as i64,            // < 4096 s
        14 => -(r.below(1 << 50) as i64),
        _ => r.next_u64() as i64,
    }
}

fn pick_u64(r: &mut Rng) -> u64 {
    match r.below(10) {
        0 => 0,
        1 => 1,
        2 => u64::MAX,
        3 => u64::MAX - r.below(3),
        4 => (1u64 << 53) + r.below(3),
        5 => (1u64 << 63) + r.below(3),
        6 => u32::MAX as u64 + r.below(3),
        7 => r.below(1000),
        8 => i64::MAX as u64 + r.below(3),
        _ => r.next_u64(),
    }
}

fn pick_f64(r: &mut Rng) -> f64 {
    // extreme but finite
    let v = match r.below(16) {
        0 => 0.0,
        1 => -0.0,
        2 => f64::MAX,
        3 => f64::MIN,
        4 => f64::MIN_POSITIVE,
        5 => 5e-324,
        6 => f64::EPSILON,
        7 => 1.0 + f64::EPSILON,
        8 => 0.1 + 0.2,
        9 => (r.below(1 << 40) as f64) * 1e-9,
        10 => 1e-12 * (1.0 + r.below(1000) as f64 / 7.0),
        11 => -(r.below(1 << 52) as f64) / 3.0,
        12 => 2f64.powi(r.below(2000) as i32 - 1000),
        13 => (r.below(100_000) as f64) / 10.0,
        _ => f64::from_bits(r.next_u64()),
    };
    if v.is_finite() { v } else { 1.5 }
}

fn pick_string(r: &mut Rng) -> String {
    match r.below(10) {
        0 => String::new(),
        1 => "pool.ntp.org:123".into(),
        2 => "time.example.com".into(),
        3 => "\"quoted\\back/slash\"\n\t\r\u{0}\u{1f}".into(),
        4 => "ünï©ödé–\u{1F550}\u{10FFFF}\u{FEFF}".into(),
        5 => "}{][,:\"".into(),
        6 => "x".repeat(1 + r.below(1500) as usize),
        7 => "[2001:db8::1]:123".into(),
        8 => "\u{2028}\u{2029}\u{7f}".into(),
        _ => format!("ntp{}.example.net:{}", r.below(100), r.below(65536)),
    }
}

fn pick_addr(r: &mut Rng) -> SocketAddr {
    match r.below(6) {
        0 => SocketAddr::new(IpAddr::V4(Ipv4Addr::UNSPECIFIED), 123),
        1 => SocketAddr::new(IpAddr::V6(Ipv6Addr::UNSPECIFIED), 123),
        2 => SocketAddr::new(IpAddr::V4(Ipv4Addr::from(r.next_u64() as u32)), r.below(65536) as u16),
        3 => SocketAddr::new(IpAddr::V6(Ipv6Addr::from(((r.next_u64() as u128) << 64) | r.next_u64() as u128)), r.below(65536) as u16),
        // link-local with a numeric scope id (what "[fe80::1%2]:123" in the configuration parses to)
        4 => SocketAddr::V6(SocketAddrV6::new(Ipv6Addr::new(0xfe80, 0, 0, 0, 0, 0, 0, 1), 123, 0, 1 + r.below(40) as u32)),
        _ => SocketAddr::new(IpAddr::V4(Ipv4Addr::BROADCAST), 65535),
    }
}

fn gen_spec(idx: u64, thorough: bool) -> Spec {
    let mut r = Rng::new(mix(&[0xC38, idx]));
    let r = &mut r;
    // source list: empty, short, and (rarely) long
    let n_src = match idx % 12 {
        0 => 0,
        11 => if thorough { 40 + r.below(60) as usize } else { 14 + r.below(12) as usize },
        _ => r.below(6) as usize,
    };
    let n_srv = match idx % 5 {
        0 => 0,
        4 => 3 + r.below(3) as usize,
        _ => 1,
    };
    // state 0 is the all-default state a freshly started daemon publishes
    let plain = idx == 0;
    let sources = (0..n_src)
        .map(|_| SrcSpec {
            offset: pick_i64(r),
            uncertainty: pick_i64(r),
            delay: pick_i64(r),
            remote_delay: pick_i64(r),
            remote_uncertainty: pick_i64(r),
            last_update: pick_u64(r),
            unanswered: [0, 1, 8, u32::MAX][r.below(4) as usize],
            poll: [4i8, 10, 0, -7, 17, i8::MAX, i8::MIN][r.below(7) as usize],
            cookies: [None, Some(0), Some(1), Some(8), Some(usize::MAX)][r.below(5) as usize],
            name: pick_string(r),
            address: pick_string(r),
            id: pick_u64(r),
        })
        .collect();
    let servers = (0..n_srv)
        .map(|_| {
            let registered = r.below(3) == 0;
            let mut counters = [0u64; 11];
            if !registered {
                for c in counters.iter_mut() {
                    *c = pick_u64(r);
                }
            }
            SrvSpec { addr: pick_addr(r), counters, registered }
        })
        .collect();
    Spec {
        default_program: plain || r.below(3) > 0,
        version: pick_string(r),
        build_commit: pick_string(r),
        build_commit_date: pick_string(r),
        uptime: if plain { 0.0 } else { pick_f64(r) },
        now: if plain { 0 } else { pick_u64(r) },
        precision: if plain { 0 } else { pick_i64(r) },
        root_delay: if plain { 0 } else { pick_i64(r) },
        rv_base_time: if plain { 0 } else { pick_u64(r) },
        rv: if plain { [0.0; 4] } else { [pick_f64(r), pick_f64(r), pick_f64(r), pick_f64(r)] },
        leap: if plain { 3 } else { r.below(5) as u8 },
        acc_steps: if plain { 0 } else { pick_i64(r) },
        acc_thr: if r.below(2) == 0 { None } else { Some(pick_i64(r)) },
        stratum: if plain { 16 } else { [0u8, 1, 2, 15, 16, 255][r.below(6) as usize] },
        refid: r.next_u64() as u32,
        sources,
        servers,
    }
}

/// The counter fields of the real struct in the order of `SrvSpec::counters`.
fn counters_of(s: &ServerStats) -> [&Counter; 11] {
    [
        &s.received_packets,
        &s.accepted_packets,
        &s.denied_packets,
        &s.ignored_packets,
        &s.rate_limited_packets,
        &s.response_send_errors,
        &s.nts_received_packets,
        &s.nts_accepted_packets,
        &s.nts_denied_packets,
        &s.nts_rate_limited_packets,
        &s.nts_nak_packets,
    ]
}

fn counter(n: u64) -> Counter {
    // `Counter`'s field is private and it can only be incremented by one: large values are
    // built through its Deserialize impl and verified with `get()` by the caller.
    serde_json::from_value(serde_json::json!(n)).expect("counter")
}

/// Build the real published value from the specification. For `registered`
/// servers the counters come from real `ServerStats::register` calls and are
/// written back into the spec.
fn build(spec: &mut Spec) -> ObservableState {
    let program = if spec.default_program {
        let p = ProgramData::with_dynamics(spec.uptime, ts_from_fixed(spec.now));
        spec.version = p.version.clone();
        spec.build_commit = p.build_commit.clone();
        spec.build_commit_date = p.build_commit_date.clone();
        p
    } else {
        ProgramData {
            version: spec.version.clone(),
            build_commit: spec.build_commit.clone(),
            build_commit_date: spec.build_commit_date.clone(),
            uptime_seconds: spec.uptime,
            now: ts_from_fixed(spec.now),
        }
    };
    let mut system = SystemSnapshot::default();
    system.time_snapshot.precision = dur_from_fixed(spec.precision);
    system.time_snapshot.root_delay = dur_from_fixed(spec.root_delay);
    system.time_snapshot.root_variance_base_time = ts_from_fixed(spec.rv_base_time);
    system.time_snapshot.root_variance_base = spec.rv[0];
    system.time_snapshot.root_variance_linear = spec.rv[1];
    system.time_snapshot.root_variance_quadratic = spec.rv[2];
    system.time_snapshot.root_variance_cubic = spec.rv[3];
    system.time_snapshot.leap_indicator = LEAPS[spec.leap as usize];
    system.time_snapshot.accumulated_steps = dur_from_fixed(spec.acc_steps);
    system.time_snapshot.accumulated_steps_threshold = spec.acc_thr.map(dur_from_fixed);
    system.ntp_snapshot.stratum = spec.stratum;
    system.ntp_snapshot.reference_id = ReferenceId::from_ip(IpAddr::V4(Ipv4Addr::from(spec.refid)));
    let sources = spec
        .sources
        .iter()
        .map(|s| ObservableSourceState {
            timedata: ObservableSourceTimedata {
                offset: dur_from_fixed(s.offset),
                uncertainty: dur_from_fixed(s.uncertainty),
                delay: dur_from_fixed(s.delay),
                remote_delay: dur_from_fixed(s.remote_delay),
                remote_uncertainty: dur_from_fixed(s.remote_uncertainty),
                last_update: ts_from_fixed(s.last_update),
            },
            unanswered_polls: s.unanswered,
            poll_interval: PollInterval::from_byte(s.poll as u8),
            nts_cookies: s.cookies,
            name: s.name.clone(),
            address: s.address.clone(),
            id: clock_id_from_raw(s.id),
        })
        .collect();
    let mut servers = vec![];
    for (i, s) in spec.servers.iter_mut().enumerate() {
        let stats = if s.registered {
            let mut st = ServerStats::default();
            // a little real traffic accounting
            let pattern: [(bool, ServerReason, ServerResponse); 6] = [
                (false, ServerReason::Policy, ServerResponse::ProvideTime),
                (true, ServerReason::Policy, ServerResponse::ProvideTime),
                (false, ServerReason::RateLimit, ServerResponse::Ignore),
                (true, ServerReason::InvalidCrypto, ServerResponse::NTSNak),
                (false, ServerReason::Policy, ServerResponse::Deny),
                (true, ServerReason::ParseError, ServerResponse::Ignore),
            ];
            for j in 0..(3 + i * 5) {
                let (nts, reason, response) = pattern[j % pattern.len()];
                st.register(4, nts, reason, response);
            }
            for (k, c) in counters_of(&st).iter().enumerate() {
                s.counters[k] = c.get();
            }
            st
        } else {
            ServerStats {
                received_packets: counter(s.counters[0]),
                accepted_packets: counter(s.counters[1]),
                denied_packets: counter(s.counters[2]),
                ignored_packets: counter(s.counters[3]),
                rate_limited_packets: counter(s.counters[4]),
                response_send_errors: counter(s.counters[5]),
                nts_received_packets: counter(s.counters[6]),
                nts_accepted_packets: counter(s.counters[7]),
                nts_denied_packets: counter(s.counters[8]),
                nts_rate_limited_packets: counter(s.counters[9]),
                nts_nak_packets: counter(s.counters[10]),
            }
        };
        servers.push(ObservableServerState { address: s.addr, stats });
    }
    ObservableState { program, system, sources, servers }
}

fn refid_of(v: u32) -> ReferenceId {
    ReferenceId::from_ip(IpAddr::V4(Ipv4Addr::from(v)))
}

fn dur_ok(spec: i64, got: i64) -> bool {
    // |got - spec| <= |spec| * 1e-9 + 1 unit (2^-32 s), exactly, in integers
    let d = (got as i128 - spec as i128).abs();
    d * 1_000_000_000 <= (spec as i128).abs() + 1_000_000_000
}

/// Field-by-field comparison of what was read with the specification.
/// `tag` says which value is judged ("built" = sanity of the harness's own construction).
fn compare(spec: &Spec, got: &ObservableState, read_back: bool) {
    macro_rules! eq {
        ($clause:expr, $what:expr, $a:expr, $b:expr) => {
            if read_back {
                check!(P, $clause, $a == $b, "{}: published {:?} read {:?}", $what, $b, $a);
            } else if $a != $b {
                simkit::abort(format!("harness: built value differs from spec in {}: {:?} vs {:?}", $what, $a, $b));
            }
        };
    }
    macro_rules! dur {
        ($what:expr, $got:expr, $spec:expr) => {{
            let g = dur_to_fixed($got);
            if read_back {
                let sp: i64 = $spec;
                let off = (g as i128 - sp as i128).abs();
                // violation class kept apart: a negative sub-second duration that comes back exactly 2 units off
                let class = if sp < 0 && sp > -(1i64 << 32) && off == 2 {
                    "negative sub-second duration read back 2 units off (bound of 1 ppb + 1 unit exceeded by less than one unit)"
                } else {
                    "outside 1 ppb + one 2^-32 s unit"
                };
                check!(P, "roundtrip-duration-1ppb", dur_ok(sp, g), "{}: published {} read {} (2^-32 s units): {}", $what, sp, g, class);
                if g != sp {
                    probe("duration-inexact");
                }
            } else if g != $spec {
                simkit::abort(format!("harness: built duration differs from spec in {}", $what));
            }
        }};
    }
    eq!("roundtrip-string", "program.version", got.program.version, spec.version);
    eq!("roundtrip-string", "program.build_commit", got.program.build_commit, spec.build_commit);
    eq!("roundtrip-string", "program.build_commit_date", got.program.build_commit_date, spec.build_commit_date);
    eq!("roundtrip-f64-exact", "program.uptime_seconds", got.program.uptime_seconds, spec.uptime);
    eq!("roundtrip-timestamp", "program.now", ts_to_fixed(got.program.now), spec.now);
    let t = &got.system.time_snapshot;
    dur!("system.precision", t.precision, spec.precision);
    dur!("system.root_delay", t.root_delay, spec.root_delay);
    eq!("roundtrip-timestamp", "system.root_variance_base_time", ts_to_fixed(t.root_variance_base_time), spec.rv_base_time);
    eq!("roundtrip-f64-exact", "system.root_variance_base", t.root_variance_base, spec.rv[0]);
    eq!("roundtrip-f64-exact", "system.root_variance_linear", t.root_variance_linear, spec.rv[1]);
    eq!("roundtrip-f64-exact", "system.root_variance_quadratic", t.root_variance_quadratic, spec.rv[2]);
    eq!("roundtrip-f64-exact", "system.root_variance_cubic", t.root_variance_cubic, spec.rv[3]);
    eq!("roundtrip-enum", "system.leap_indicator", t.leap_indicator, LEAPS[spec.leap as usize]);
    dur!("system.accumulated_steps", t.accumulated_steps, spec.acc_steps);
    eq!("roundtrip-option", "system.accumulated_steps_threshold.is_some", t.accumulated_steps_threshold.is_some(), spec.acc_thr.is_some());
    if let (Some(g), Some(s)) = (t.accumulated_steps_threshold, spec.acc_thr) {
        dur!("system.accumulated_steps_threshold", g, s);
    }
    eq!("roundtrip-int", "system.stratum", got.system.ntp_snapshot.stratum, spec.stratum);
    eq!("roundtrip-int", "system.reference_id", got.system.ntp_snapshot.reference_id, refid_of(spec.refid));
    eq!("roundtrip-list-length", "sources.len", got.sources.len(), spec.sources.len());
    for (i, (g, s)) in got.sources.iter().zip(spec.sources.iter()).enumerate() {
        dur!(format!("sources[{i}].offset"), g.timedata.offset, s.offset);
        dur!(format!("sources[{i}].uncertainty"), g.timedata.uncertainty, s.uncertainty);
        dur!(format!("sources[{i}].delay"), g.timedata.delay, s.delay);
        dur!(format!("sources[{i}].remote_delay"), g.timedata.remote_delay, s.remote_delay);
        dur!(format!("sources[{i}].remote_uncertainty"), g.timedata.remote_uncertainty, s.remote_uncertainty);
        eq!("roundtrip-timestamp", format!("sources[{i}].last_update"), ts_to_fixed(g.timedata.last_update), s.last_update);
        eq!("roundtrip-int", format!("sources[{i}].unanswered_polls"), g.unanswered_polls, s.unanswered);
        eq!("roundtrip-int", format!("sources[{i}].poll_interval"), g.poll_interval.as_log(), s.poll);
        eq!("roundtrip-option", format!("sources[{i}].nts_cookies"), g.nts_cookies, s.cookies);
        eq!("roundtrip-string", format!("sources[{i}].name"), g.name, s.name);
        eq!("roundtrip-string", format!("sources[{i}].address"), g.address, s.address);
        eq!("roundtrip-int", format!("sources[{i}].id"), clock_id_raw(g.id), s.id);
    }
    eq!("roundtrip-list-length", "servers.len", got.servers.len(), spec.servers.len());
    for (i, (g, s)) in got.servers.iter().zip(spec.servers.iter()).enumerate() {
        eq!("roundtrip-address", format!("servers[{i}].address"), g.address, s.addr);
        for (k, c) in counters_of(&g.stats).iter().enumerate() {
            eq!("roundtrip-int", format!("servers[{i}].stats[{k}]"), c.get(), s.counters[k]);
        }
    }
}

// ---------------------------------------------------------------------------
// enumeration table
// ---------------------------------------------------------------------------

const CHUNKS: [usize; 9] = [1, 2, 3, 5, 7, 8, 9, 16, 64];
const N_RANDOM: u64 = 8;
const N_PREFIX_SPLITS: u64 = 8; // 0 = prefix in one piece, k = split after k bytes (1..=7)

fn announced(p: u64) -> Vec<u64> {
    vec![
        0,
        1,
        p.saturating_sub(1),
        p + 1,
        MAX_MSG,
        MAX_MSG + 1,
        MAX_MSG + 2,
        MAX_MSG * 2,
        p + MAX_MSG + 1,
        (1 << 32) + p, // equals p after truncation to 32 bits
        1 << 32,
        1 << 53,
        1 << 63,
        u64::MAX,
    ]
}

#[derive(Clone, Copy, Debug)]
enum Case {
    Whole,
    Split(usize),
    Eof(usize),
    Chunk(usize),
    Random(u64),
    /// (index into `announced`, prefix split, payload follows?)
    Announce(usize, usize, bool),
}

struct Table {
    /// framed length (8 + payload) of each state
    total: Vec<usize>,
    /// first run index of each state (+ final sentinel)
    start: Vec<u64>,
}

fn cases_of(total: usize) -> u64 {
    let t = total as u64;
    let n_ann = announced(t - 8).len() as u64;
    1 + (t - 1) + t + CHUNKS.len() as u64 + N_RANDOM + n_ann * N_PREFIX_SPLITS * 2
}

fn n_states(thorough: bool) -> u64 {
    let d = if thorough { 600 } else { 72 };
    std::env::var("VERIF_C38_STATES").ok().and_then(|s| s.parse().ok()).unwrap_or(d)
}

fn table(thorough: bool) -> &'static Table {
    static QUICK: OnceLock<Table> = OnceLock::new();
    static THOROUGH: OnceLock<Table> = OnceLock::new();
    let cell = if thorough { &THOROUGH } else { &QUICK };
    cell.get_or_init(|| {
        let mut total = vec![];
        let mut start = vec![0u64];
        for i in 0..n_states(thorough) {
            let mut spec = gen_spec(i, thorough);
            let v = build(&mut spec);
            // sizing only: the bytes judged in a run are produced by the real write_json inside that run
            let len = 8 + serde_json::to_vec(&v).map(|b| b.len()).unwrap_or(0);
            total.push(len);
            start.push(start.last().unwrap() + cases_of(len));
        }
        Table { total, start }
    })
}

pub fn enumerate(thorough: bool) -> u64 {
    *table(thorough).start.last().unwrap()
}

fn locate(thorough: bool, run: u64) -> (u64, usize, Case) {
    let t = table(thorough);
    let run = run % t.start.last().unwrap().max(&1);
    let s = match t.start.binary_search(&run) {
        Ok(i) => i,
        Err(i) => i - 1,
    };
    let total = t.total[s];
    let tt = total as u64;
    let mut k = run - t.start[s];
    let case = 'c: {
        if k == 0 {
            break 'c Case::Whole;
        }
        k -= 1;
        if k < tt - 1 {
            break 'c Case::Split(k as usize + 1);
        }
        k -= tt - 1;
        if k < tt {
            break 'c Case::Eof(k as usize);
        }
        k -= tt;
        if k < CHUNKS.len() as u64 {
            break 'c Case::Chunk(CHUNKS[k as usize]);
        }
        k -= CHUNKS.len() as u64;
        if k < N_RANDOM {
            break 'c Case::Random(k);
        }
        k -= N_RANDOM;
        let follows = k % 2 == 0;
        let k = k / 2;
        Case::Announce((k / N_PREFIX_SPLITS) as usize, (k % N_PREFIX_SPLITS) as usize, follows)
    };
    (s as u64, total, case)
}

// ---------------------------------------------------------------------------
// one run
// ---------------------------------------------------------------------------

type Outcome = Rc<RefCell<Option<Result<ObservableState, (std::io::ErrorKind, String)>>>>;

fn spawn_reader(mut stream: simkit::stream::SimStream, out: Outcome) {
    exec::spawn("reader", async move {
        let mut buf = Vec::new();
        let r = read_json::<ObservableState>(&mut stream, &mut buf).await;
        *out.borrow_mut() = Some(r.map_err(|e| (e.kind(), e.to_string())));
    });
}

async fn settle(done: &Outcome, probe: &simkit::stream::PipeProbe) {
    // let the reader consume everything that was delivered so far (bounded)
    for _ in 0..200_000 {
        if done.borrow().is_some() || probe.buffered() == 0 {
            break;
        }
        exec::yield_now().await;
    }
    // one more turn so that the reader parks on the empty pipe
    exec::yield_now().await;
}

async fn wait_done(done: &Outcome) {
    for _ in 0..2_000_000 {
        if done.borrow().is_some() {
            return;
        }
        exec::yield_now().await;
    }
    simkit::abort("reader never finished".into());
}

pub fn run() {
    simntp::reset_hooks();
    let thorough = simkit::thorough();
    let (sidx, total_expected, case) = locate(thorough, simkit::run_index());
    let mut spec = gen_spec(sidx, thorough);
    let value = build(&mut spec);
    compare(&spec, &value, false);
    ev!("c38 state={sidx} sources={} servers={} framed={total_expected} case={case:?} (of {} cases)", spec.sources.len(), spec.servers.len(), enumerate(thorough));

    let spec2 = spec.clone();
    exec::block_on(async move {
        let spec = spec2;
        // the real writer's bytes (tokio implements AsyncWrite for Vec<u8>: one chunk, no faults)
        let mut framed: Vec<u8> = Vec::new();
        if let Err(e) = write_json(&mut framed, &value).await {
            check!(P, "write-ok", false, "write_json into memory failed: {e}");
            return;
        }
        if framed.len() != total_expected {
            simkit::abort(format!("harness: framed length {} differs from the table's {}", framed.len(), total_expected));
            return;
        }
        let payload_len = framed.len() - 8;
        let announced_len = u64::from_be_bytes(framed[..8].try_into().unwrap());
        check!(P, "prefix-is-payload-length", announced_len == payload_len as u64, "prefix {} payload {}", announced_len, payload_len);

        let done: Outcome = Rc::new(RefCell::new(None));
        let mut expect_value = true; // else: must be an error
        let mut either = false; // value-or-error both fine (only equality is judged if a value comes back)
        let mut oversize = false;
        let mut delivered_payload = 0usize;
        let counter;

        match case {
            Case::Whole | Case::Split(_) | Case::Eof(_) | Case::Chunk(_) => {
                let mut cfg = StreamCfg::default();
                if let Case::Chunk(c) = case {
                    cfg.max_read_chunk = c;
                    cfg.pending_p = 0.3;
                    fault("read-chunk-limit");
                }
                let (_w, r, ab, _ba) = duplex(cfg, StreamCfg::default());
                counter = ab.clone();
                spawn_reader(r, done.clone());
                match case {
                    Case::Split(k) => {
                        fault("split-at-k");
                        ab.push(&framed[..k]);
                        settle(&done, &ab).await;
                        check!(P, "no-early-result", done.borrow().is_none(), "reader finished after {} of {} bytes", k, framed.len());
                        ab.push(&framed[k..]);
                    }
                    Case::Eof(k) => {
                        fault("eof-at-k");
                        ab.push(&framed[..k]);
                        settle(&done, &ab).await;
                        ab.close();
                        expect_value = false;
                    }
                    _ => ab.push(&framed),
                }
                wait_done(&done).await;
                drop(_w);
            }
            Case::Random(_) => {
                // the real write_json writes straight into the faulty stream, concurrently with the reader
                let cfg = StreamCfg {
                    short_read_p: simkit::uniform("c38.short-read-p", 0.0, 0.9),
                    short_write_p: simkit::uniform("c38.short-write-p", 0.0, 0.9),
                    max_read_chunk: [0usize, 1, 3, 17][simkit::choose("c38.max-chunk", 4) as usize],
                    pending_p: simkit::uniform("c38.pending-p", 0.0, 0.5),
                    ..StreamCfg::default()
                };
                let (mut w, r, ab, _ba) = duplex(cfg, StreamCfg::default());
                counter = ab.clone();
                spawn_reader(r, done.clone());
                let wres: Rc<RefCell<Option<std::io::Result<()>>>> = Rc::new(RefCell::new(None));
                let wres2 = wres.clone();
                let mut spec_w = spec.clone();
                exec::spawn("writer", async move {
                    let v = build(&mut spec_w);
                    let r = write_json(&mut w, &v).await;
                    *wres2.borrow_mut() = Some(r);
                    // like the daemon: the connection is closed right after the message
                    drop(w);
                });
                wait_done(&done).await;
                let w = wres.borrow_mut().take();
                check!(P, "write-ok", matches!(w, Some(Ok(()))), "write_json over the chunking stream: {:?}", w.map(|r| r.map_err(|e| e.to_string())));
            }
            Case::Announce(ai, split, follows) => {
                let l = announced(payload_len as u64)[ai];
                fault("announced-length");
                let (_w, r, ab, _ba) = duplex(StreamCfg::default(), StreamCfg::default());
                counter = ab.clone();
                spawn_reader(r, done.clone());
                let prefix = l.to_be_bytes();
                if split == 0 {
                    ab.push(&prefix);
                } else {
                    ab.push(&prefix[..split]);
                    settle(&done, &ab).await;
                    check!(P, "no-early-result", done.borrow().is_none(), "reader finished after {} prefix bytes", split);
                    ab.push(&prefix[split..]);
                }
                if follows {
                    ab.push(&framed[8..]);
                    delivered_payload = payload_len;
                }
                // give the reader the chance to (wrongly) consume payload before the writer goes away
                settle(&done, &ab).await;
                for _ in 0..8 {
                    exec::yield_now().await;
                }
                ab.close();
                wait_done(&done).await;
                drop(_w);
                oversize = l > MAX_MSG;
                if oversize {
                    expect_value = false;
                } else if l == payload_len as u64 && follows {
                    expect_value = true;
                } else {
                    // shorter / longer than what follows: an error is expected, but a value that
                    // equals the published one (e.g. only trailing data cut) would not be wrong
                    either = true;
                }
                ev!("announce l={l} split={split} follows={follows}");
            }
        }

        let outcome = done.borrow_mut().take();
        let read_total = counter.read_total();
        match &outcome {
            Some(Ok(_)) => ev!("result ok read_total={read_total}"),
            Some(Err((k, m))) => ev!("result err kind={k:?} msg={m} read_total={read_total}"),
            None => ev!("result none"),
        }
        match outcome {
            None => {}
            Some(Ok(got)) => {
                if expect_value || either {
                    compare(&spec, &got, true);
                    if expect_value {
                        check!(P, "consumed-exactly-the-message", read_total == framed.len(), "read_total {} framed {}", read_total, framed.len());
                    }
                } else if oversize {
                    check!(P, "oversize-rejected", false, "a value was returned for a message announcing more than 1 MiB");
                } else {
                    check!(P, "eof-yields-error", false, "a value was returned although the stream ended after {} of {} bytes", read_total, framed.len());
                }
            }
            Some(Err((kind, msg))) => {
                if expect_value && !either {
                    check!(P, "roundtrip-succeeds", false, "read_json failed on an intact message: {kind:?} {msg}");
                } else if oversize {
                    check!(P, "oversize-rejected", true, "");
                    check!(
                        P,
                        "oversize-no-payload-read",
                        read_total == 8 && counter.buffered() == delivered_payload,
                        "consumed {} bytes (must be exactly the 8-byte prefix), {} of {} payload bytes still unread",
                        read_total,
                        counter.buffered(),
                        delivered_payload
                    );
                } else {
                    check!(P, "eof-yields-error", true, "");
                }
            }
        }
    });
    for (task, msg) in exec::crashes() {
        check!(P, "no-panic", false, "task {task} panicked: {msg}");
    }
    simkit::oracle(P);
    ntp_proto::verif::clear();
}
