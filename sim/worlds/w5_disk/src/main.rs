//! W5/W6 — disk and observation-socket worlds (DESIGN.md §4 "W5", "W6"), both
//! fault enumerations:
//!   C27  key persistence: the real `nts_key_provider::spawn` loop and
//!        `KeySetProvider::{load,store,rotate}` on a simulated disk (hook H10);
//!   C38  the real `sockets::{write_json, read_json}` over a simulated stream.

mod c27;
mod c38;

use simkit::batch::{cli_main, Level, Property, WorldDef};

fn run() {
    match simkit::focus() {
        "C38" => c38::run(),
        _ => c27::run(),
    }
}

fn main() {
    cli_main(WorldDef {
        name: "w5",
        run,
        properties: vec![
            Property {
                id: "C27",
                level: Level::FaultEnumeration,
                quick_runs: 0,
                thorough_runs: 0,
                quick_wall_s: 85.0,
                thorough_wall_s: 900.0,
                event_cap: 5_000,
                enumerate: Some(c27::enumerate),
                rule: "one run = one enumerated case of the real key provider (spawn: load / fresh fallback / truncate-then-write / rotate loop) on the simulated disk: (A) every crash point = every prefix of the write stream after the truncating open (and 'before the open') of the store after 0-4 rotations, over no / empty / shorter / longer / garbage pre-existing files and history 0,1,3; (B) clean restart and every single I/O fault (ENOSPC, EIO, EINTR, short write on the k-th write; open errors; short/EINTR/EIO reads of the next load), with and without a later clean rotation; (C) every truncation length, header field value classes (time, id_offset, len x primary), every header bit and one bit of every key byte of stored files with 1, 2, 4 keys; (D) seeded sequences of several such faults in one life cycle",
                assumptions: &[
                    "process-crash semantics: writes issued before the crash survive in order (no power-loss reordering, no lost metadata)",
                    "std::fs::{File,OpenOptions} and std::thread::sleep in nts_key_provider.rs are replaced by the simulated disk / simulator-released park (hook H10); std::fs::metadata (permission warning only) is not simulated",
                    "SystemTime::now() in the file header is the real wall clock (kept out of control flow and out of the event log)",
                ],
            },
            Property {
                id: "C38",
                level: Level::FaultEnumeration,
                quick_runs: 0,
                thorough_runs: 0,
                quick_wall_s: 85.0,
                thorough_wall_s: 900.0,
                event_cap: 1_000,
                enumerate: Some(c38::enumerate),
                rule: "one run = one (state, fault case): boundary-value ObservableStates built from an independent plain specification x {intact, split at every position of prefix and payload, EOF at every offset, read chunks of 1..64 bytes with spurious Pending, real writer with seeded short writes/reads, 14 announced lengths x every split of the 8-byte prefix x payload present/absent}",
                assumptions: &[
                    "states are constructed from boundary values through public constructors / pub fields (not harvested from W1 runs)",
                    "the unix socket itself (accept loop, permissions) is replaced by the simulated duplex stream",
                ],
            },
        ],
        real_components: &[
            "ntpd::daemon::nts_key_provider::spawn (load, fresh-key fallback, rotation loop with truncate-then-write, mode 0600)",
            "ntp_proto::KeySetProvider::{new, load, store, rotate, get}, KeySet::{encode_cookie, decode_cookie}",
            "ntp_proto::Server::handle with the restored key set (NTS request / response, new cookies)",
            "ntpd::daemon::sockets::{write_json, read_json}",
            "serde impls of ObservableState, ProgramData, SystemSnapshot, ObservableSourceState, ServerStats/Counter, NtpDuration, NtpTimestamp",
        ],
        stub_components: &[
            "file system -> simfs (/verif/hooks/ntpd/facade_keys.rs)",
            "rotation sleep -> park released by the simulator",
            "unix stream socket -> simkit::stream::duplex",
        ],
    })
}
