fn main() {
    let _ = ntpd::verif::keys::mount("x");
    let _ = ntpd::verif::observe::write_json::<u8>;
    let ks = ntp_proto::KeySetProvider::new(1).get();
    let _ = ks.verif_disk_view();
}
