//! Shared helpers for worlds that run real `ntpd` daemon code (spawners, key provider, sockets). Add new files, do not edit others.
