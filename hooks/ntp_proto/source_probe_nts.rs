//! Read-only probe (child module of `ntp-proto/src/source.rs`), compiled only under
//! `--cfg pendulum_project_ntpd_rs_verif`. Owned by world w1x (NTS client, stratum/loop, Bloom
//! transfer). `verif_x_view` never mutates; `verif_x_with_bloom_chunk` is a construction-time
//! configuration knob (the chunk size is hard-coded to 16 in `NtpSource::new`).

use super::{NtpSource, SourceController};
use crate::packet::v5::server_reference_id::RemoteBloomFilter;
use crate::verif::system::XSourceView;

impl<Controller: SourceController> NtpSource<Controller> {
    pub fn verif_x_view(&self) -> XSourceView {
        XSourceView {
            nts: self.nts.is_some(),
            stash: self
                .nts
                .as_ref()
                .map(|n| n.cookies.verif_contents())
                .unwrap_or_default(),
            remote_min_poll: self.remote_min_poll_interval.as_log(),
            last_poll: self.last_poll_interval.as_log(),
            protocol_version: self.protocol_version,
            reach: self.reach.0,
            tries: self.tries,
            have_deny_rstr: self.have_deny_rstr_response,
            pending: self.current_request_identifier.is_some(),
            pending_valid: self
                .current_request_identifier
                .map(|(_, until)| until >= tokio::time::Instant::now())
                .unwrap_or(false),
            stratum: self.stratum,
            reference_id: self.reference_id.to_bytes(),
            source_id: self.source_id.to_bytes(),
            bloom: self.bloom_filter.verif_view(),
        }
    }

    /// Replace the (still untouched) remote Bloom filter by one with another chunk size.
    /// Only legal before the first poll; returns false (and changes nothing) otherwise.
    pub fn verif_x_with_bloom_chunk(&mut self, chunk: u16) -> bool {
        if self.tries != 0 || self.current_request_identifier.is_some() {
            return false;
        }
        match RemoteBloomFilter::new(chunk) {
            Some(f) => {
                self.bloom_filter = f;
                true
            }
            None => false,
        }
    }
}
