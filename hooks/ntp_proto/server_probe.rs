//! Read-only probe (child module of `ntp-proto/src/server.rs`), compiled only under
//! `--cfg pendulum_project_ntpd_rs_verif`. Owned by the world that needs it; must never mutate state.
//!
//! Owner: world w1s (NTP server world). The C20 oracle keeps its own slot array; the only thing it
//! cannot know independently is which slot the server's (seeded) hasher maps an address to.

use std::net::IpAddr;

use super::Server;

impl<C> Server<C> {
    /// Slot of the rate-limiting cache `addr` maps to (`None` when the cache is disabled).
    pub fn verif_slot_index(&self, addr: IpAddr) -> Option<usize> {
        if self.client_cache.elements.is_empty() {
            None
        } else {
            Some(self.client_cache.index(&addr))
        }
    }

    /// Number of slots of the rate-limiting cache.
    pub fn verif_cache_len(&self) -> usize {
        self.client_cache.elements.len()
    }
}
