//! Read-only probe (child module of `ntp-proto/src/system.rs`), compiled only under
//! `--cfg pendulum_project_ntpd_rs_verif`. Owned by world w1x; never mutates state.

use super::{NtpManager, NtpServerInfo};
use crate::packet::v5::server_reference_id::ServerId;
use crate::{ClockId, NtpSourceSnapshot};

impl NtpManager {
    pub fn verif_server_id(&self) -> ServerId {
        self.server_id
    }

    /// What the node's `Server` instances read when answering.
    pub fn verif_server_info(&self) -> NtpServerInfo {
        *self.server_info.read().unwrap()
    }

    /// The snapshot a source last published for the used-sources computation.
    pub fn verif_source_snapshot(&self, id: ClockId) -> Option<NtpSourceSnapshot> {
        self.source_snapshots.lock().unwrap().get(&id).copied()
    }

    pub fn verif_local_stratum(&self) -> u8 {
        self.synchronization_config.local_stratum
    }

    pub fn verif_local_ips(&self) -> Vec<std::net::IpAddr> {
        self.source_info.read().unwrap().ip_list.to_vec()
    }
}
