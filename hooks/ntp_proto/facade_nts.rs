//! Facade fragment "nts" (see mod.rs): re-exports / wrappers the simulator needs
//! from crate::nts-related code. Owned by the world that uses it.
