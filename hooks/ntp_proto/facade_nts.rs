//! Facade fragment "nts" (see mod.rs): plain-data mirrors of the NTS-KE record /
//! request / response types plus wrappers the W3 key-exchange world needs.
//! Owned by world w3 (`/verif/sim/worlds/w3_ke`).
//!
//! The NTS-KE message types (`NtsRecord`, `Request`, `KeyExchangeResponse`, ...) live
//! in private modules of `crate::nts` and mention the private `NextProtocol` enum, so
//! they cannot be named from outside the crate. The simulator therefore works with the
//! plain-data mirrors below; the lossless conversions and every call into the real
//! parser / serialiser are in the probe child module
//! (`/verif/hooks/ntp_proto/nts_probe.rs`, `impl Nts { .. }`).

use crate::keyset::{DecodedServerCookie, KeySet};
use crate::nts::{AeadAlgorithm, KeyExchangeResult};
use crate::packet::{AesSivCmac256, AesSivCmac512, Cipher};
use crate::source::ProtocolVersion;

/// Anchor type for the in-crate API (inherent methods are implemented by the probe
/// child module of `crate::nts`, which can see the private message types).
pub struct Nts;

/// Plain-data mirror of `nts::record::NtsRecord` (ids as raw u16).
#[derive(Clone, Debug, PartialEq, Eq, Hash)]
pub enum Rec {
    EndOfMessage,
    NextProtocol(Vec<u16>),
    Error(u16),
    Warning(u16),
    AeadAlgorithm(Vec<u16>),
    NewCookie(Vec<u8>),
    Server(String),
    Port(u16),
    Unknown { record_type: u16, critical: bool, data: Vec<u8> },
    KeepAlive,
    SupportedNextProtocolList(Vec<u16>),
    /// (algorithm id, key size)
    SupportedAlgorithmList(Vec<(u16, u16)>),
    FixedKeyRequest { c2s: Vec<u8>, s2c: Vec<u8> },
    NtpServerDeny(String),
    Authentication(String),
}

/// Plain-data mirror of `nts::messages::Request`.
#[derive(Clone, Debug, PartialEq, Eq)]
pub enum Req {
    KeyExchange {
        algorithms: Vec<u16>,
        protocols: Vec<u16>,
        denied_servers: Vec<String>,
    },
    FixedKey {
        authentication: String,
        c2s: Vec<u8>,
        s2c: Vec<u8>,
        algorithm: u16,
        protocol: u16,
        keep_alive: bool,
    },
    Support {
        authentication: String,
        wants_protocols: bool,
        wants_algorithms: bool,
        keep_alive: bool,
    },
}

/// Plain-data mirror of `nts::messages::KeyExchangeResponse`.
#[derive(Clone, Debug, PartialEq, Eq)]
pub struct Resp {
    pub protocol: u16,
    pub algorithm: u16,
    pub cookies: Vec<Vec<u8>>,
    pub server: Option<String>,
    pub port: Option<u16>,
    pub keep_alive: bool,
}

/// What a client obtained from a key exchange (keys and cookies as raw bytes; the
/// simulator must never log them: they derive from unseeded TLS randomness).
pub struct ResultView {
    pub remote: String,
    pub port: u16,
    /// 4 or 5
    pub ntp_version: u8,
    pub protocol_version: ProtocolVersion,
    pub c2s: Vec<u8>,
    pub s2c: Vec<u8>,
    pub cookies: Vec<Vec<u8>>,
}

/// Take a `KeyExchangeResult` apart (drains the cookie stash in FIFO order).
pub fn result_view(mut r: KeyExchangeResult) -> ResultView {
    let mut cookies = vec![];
    while let Some(c) = r.nts.cookies.get() {
        cookies.push(c);
    }
    ResultView {
        remote: r.remote,
        port: r.port,
        ntp_version: match r.protocol_version {
            ProtocolVersion::V4 | ProtocolVersion::V4UpgradingToV5 { .. } => 4,
            ProtocolVersion::UpgradedToV5 | ProtocolVersion::V5 => 5,
        },
        protocol_version: r.protocol_version,
        c2s: r.nts.c2s.key_bytes().to_vec(),
        s2c: r.nts.s2c.key_bytes().to_vec(),
        cookies,
    }
}

/// A server cookie opened with the server's key set.
pub struct CookieView {
    pub algorithm: u16,
    pub c2s: Vec<u8>,
    pub s2c: Vec<u8>,
}

/// Wraps the `pub(crate)` `KeySet::decode_cookie`.
pub fn decode_cookie(keyset: &KeySet, cookie: &[u8]) -> Option<CookieView> {
    let d = keyset.decode_cookie(cookie).ok()?;
    Some(CookieView {
        algorithm: u16::from(d.algorithm),
        c2s: d.c2s.key_bytes().to_vec(),
        s2c: d.s2c.key_bytes().to_vec(),
    })
}

pub(crate) fn cipher_from_bytes(algorithm: u16, key: &[u8]) -> Option<Box<dyn Cipher>> {
    match AeadAlgorithm::from(algorithm) {
        AeadAlgorithm::AeadAesSivCmac256 => Some(Box::new(AesSivCmac256::try_from(key).ok()?)),
        AeadAlgorithm::AeadAesSivCmac512 => Some(Box::new(AesSivCmac512::try_from(key).ok()?)),
        AeadAlgorithm::Unknown(_) => None,
    }
}

/// Wraps the `pub(crate)` `KeySet::encode_cookie` (used to build realistic corpus
/// messages for the C30 enumeration). `None` if the key sizes do not fit the algorithm.
pub fn encode_cookie(keyset: &KeySet, algorithm: u16, c2s: &[u8], s2c: &[u8]) -> Option<Vec<u8>> {
    let cookie = DecodedServerCookie {
        algorithm: AeadAlgorithm::from(algorithm),
        s2c: cipher_from_bytes(algorithm, s2c)?,
        c2s: cipher_from_bytes(algorithm, c2s)?,
    };
    Some(keyset.encode_cookie(&cookie))
}
