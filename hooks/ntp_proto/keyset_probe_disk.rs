//! Read-only probe (child module of `ntp-proto/src/keyset.rs`) for world w5
//! (C27, key persistence): exposes the private fields of a `KeySet` for
//! comparison and wraps the crate-private cookie functions. Compiled only
//! under `--cfg pendulum_project_ntpd_rs_verif`. Never mutates state.

use super::{DecodedServerCookie, KeySet};
use crate::nts::AeadAlgorithm;
use crate::packet::{AesSivCmac256, AesSivCmac512, Cipher};

impl KeySet {
    /// Plain copy of the contents: (key bytes oldest first, id_offset, primary).
    pub fn verif_disk_view(&self) -> (Vec<Vec<u8>>, u32, u32) {
        (
            self.keys.iter().map(|k| k.key_bytes().to_vec()).collect(),
            self.id_offset,
            self.primary,
        )
    }

    /// The real (crate-private) `encode_cookie`.
    pub fn verif_disk_encode_cookie(&self, cookie: &DecodedServerCookie) -> Vec<u8> {
        self.encode_cookie(cookie)
    }

    /// The real (crate-private) `decode_cookie`.
    pub fn verif_disk_decode_cookie(&self, cookie: &[u8]) -> Option<DecodedServerCookie> {
        self.decode_cookie(cookie).ok()
    }
}

impl DecodedServerCookie {
    /// Session keys for a cookie: AES-SIV-CMAC-256 (2 x 32 bytes) or -512 (2 x 64 bytes).
    pub fn verif_disk_new(wide: bool, s2c: &[u8], c2s: &[u8]) -> DecodedServerCookie {
        if wide {
            DecodedServerCookie {
                algorithm: AeadAlgorithm::AeadAesSivCmac512,
                s2c: Box::new(AesSivCmac512::try_from(s2c).expect("64-byte key")),
                c2s: Box::new(AesSivCmac512::try_from(c2s).expect("64-byte key")),
            }
        } else {
            DecodedServerCookie {
                algorithm: AeadAlgorithm::AeadAesSivCmac256,
                s2c: Box::new(AesSivCmac256::try_from(s2c).expect("32-byte key")),
                c2s: Box::new(AesSivCmac256::try_from(c2s).expect("32-byte key")),
            }
        }
    }

    pub fn verif_disk_algorithm(&self) -> u16 {
        u16::from(self.algorithm)
    }
}
