//! Facade fragment "source" (see mod.rs): re-exports / wrappers the simulator needs
//! from crate::source-related code. Owned by the world that uses it.
