//! Facade fragment "source" (see mod.rs): re-exports / wrappers the simulator needs
//! from crate::source-related code. Owned by world w1c (plain NTP client source).
//!
//! Only view types live here; they are filled in by the read-only probe
//! `source_probe.rs` (child module of `ntp-proto/src/source.rs`).

pub use crate::source::{NtpSource, NtpSourceAction, ProtocolVersion};

/// Read-only snapshot of the private protocol state of an `NtpSource`
/// (before/after comparisons in the oracles of C08-C12).
#[derive(Debug, Clone, PartialEq, Eq)]
pub struct SourceStateView {
    /// poll exponent of the last request sent
    pub last_poll: i8,
    /// minimum poll exponent imposed by the remote (RATE kisses, NTPv5 poll requests)
    pub remote_min_poll: i8,
    pub protocol_version: ProtocolVersion,
    /// raw 8-bit reach register
    pub reach: u8,
    pub tries: usize,
    /// an unauthenticated DENY/RSTR was seen since the last usable answer
    pub deny_seen: bool,
    /// a request is awaiting its answer
    pub pending: bool,
    /// nanoseconds of validity left for the pending request (negative = expired)
    pub pending_left_ns: Option<i128>,
    pub stratum: u8,
    pub is_nts: bool,
    pub nts_cookies: Option<usize>,
}

impl SourceStateView {
    /// The view with the version-negotiation state blanked (for clauses that are
    /// about everything *but* version negotiation).
    pub fn without_version(&self) -> SourceStateView {
        let mut v = self.clone();
        v.protocol_version = ProtocolVersion::V4;
        v
    }
}

/// Mint an NTS client session against `keyset` without running a key exchange:
/// fixed AES-SIV-CMAC-256 keys derived from `key_tag`, and `n_cookies` (at most 8)
/// cookies encoded under the key set's current primary key. What a successful
/// NTS-KE would have handed to `NtpSource`.
pub fn mint_nts_session(
    keyset: &crate::keyset::KeySet,
    key_tag: u8,
    n_cookies: usize,
) -> Box<crate::source::SourceNtsData> {
    use crate::packet::{AesSivCmac256, Cipher};
    fn key(tag: u8) -> Box<dyn Cipher> {
        Box::new(AesSivCmac256::new(
            (0..32u8).map(|i| i.wrapping_mul(7).wrapping_add(tag)).collect(),
        ))
    }
    let decoded = crate::keyset::DecodedServerCookie {
        algorithm: crate::nts::AeadAlgorithm::AeadAesSivCmac256,
        s2c: key(key_tag),
        c2s: key(key_tag ^ 0x80),
    };
    let mut cookies = crate::cookiestash::CookieStash::default();
    for _ in 0..n_cookies.min(crate::cookiestash::MAX_COOKIES) {
        cookies.store(keyset.encode_cookie(&decoded));
    }
    Box::new(crate::source::SourceNtsData {
        cookies,
        c2s: key(key_tag ^ 0x80),
        s2c: key(key_tag),
    })
}
