//! Read-only probe (child module of `ntp-proto/src/packet/extension_fields.rs`), compiled only under
//! `--cfg pendulum_project_ntpd_rs_verif`. Owned by world w1n; never mutates state.

use super::{ExtensionField, ExtensionFieldData, ExtensionFieldTypeId};
use crate::verif::packet::{EfView, PacketEfView};

impl ExtensionField<'_> {
    /// Canonical (type id, body) form of a decoded extension field.
    pub fn verif_raw(&self) -> EfView {
        let (t, data): (ExtensionFieldTypeId, Vec<u8>) = match self {
            ExtensionField::UniqueIdentifier(d) => (ExtensionFieldTypeId::UniqueIdentifier, d.to_vec()),
            ExtensionField::NtsCookie(d) => (ExtensionFieldTypeId::NtsCookie, d.to_vec()),
            ExtensionField::NtsCookiePlaceholder { cookie_length } => (
                ExtensionFieldTypeId::NtsCookiePlaceholder,
                vec![0; *cookie_length as usize],
            ),
            ExtensionField::InvalidNtsEncryptedField => (ExtensionFieldTypeId::NtsEncryptedField, vec![]),
            ExtensionField::DraftIdentification(s) => (ExtensionFieldTypeId::DraftIdentification, s.as_bytes().to_vec()),
            ExtensionField::Padding(len) => (ExtensionFieldTypeId::Padding, (*len as u64).to_be_bytes().to_vec()),
            ExtensionField::ReferenceIdRequest(r) => (
                ExtensionFieldTypeId::ReferenceIdRequest,
                [r.offset().to_be_bytes(), r.payload_len().to_be_bytes()].concat(),
            ),
            ExtensionField::ReferenceIdResponse(r) => (ExtensionFieldTypeId::ReferenceIdResponse, r.bytes().to_vec()),
            ExtensionField::Unknown { type_id, data } => (ExtensionFieldTypeId::Unknown { type_id: *type_id }, data.to_vec()),
        };
        EfView {
            type_id: t.to_type_id(),
            data,
        }
    }
}

impl ExtensionFieldData<'_> {
    pub(in crate::packet) fn verif_view(&self, has_mac: bool) -> PacketEfView {
        PacketEfView {
            authenticated: self.authenticated.iter().map(|e| e.verif_raw()).collect(),
            encrypted: self.encrypted.iter().map(|e| e.verif_raw()).collect(),
            untrusted: self.untrusted.iter().map(|e| e.verif_raw()).collect(),
            has_mac,
        }
    }
}
