//! Facade fragment "packet" (see mod.rs): re-exports / wrappers the simulator needs
//! from crate::packet-related code. Owned by world w1n (NTS packet/cookie/keyset).

use std::collections::HashMap;
use std::net::SocketAddr;
use std::sync::{Arc, Mutex, RwLock};

use aes_siv::{
    KeyInit,
    siv::{Aes128Siv, Aes256Siv},
};

pub use crate::packet::{
    AesSivCmac256, AesSivCmac512, Cipher, CipherHolder, CipherProvider, DecryptError,
    ExtensionField, NoCipher, RequestIdentifier,
};
pub use crate::packet::v5::extension_fields::{ReferenceIdRequest, ReferenceIdResponse};

use crate::algorithm::SourceController;
use crate::config::SourceConfig;
use crate::cookiestash::CookieStash;
use crate::source::{NtpSource, NtpSourceActionIterator, ProtocolVersion, SourceNtsData};
use crate::system::NtpSourceInfo;

/// One extension field as (type id, body bytes) — filled by extension_fields_probe.rs.
#[derive(Clone, Debug, PartialEq, Eq)]
pub struct EfView {
    pub type_id: u16,
    pub data: Vec<u8>,
}

/// The three extension-field lists of a decoded packet — filled by packet_probe.rs.
#[derive(Clone, Debug, PartialEq, Eq, Default)]
pub struct PacketEfView {
    pub authenticated: Vec<EfView>,
    pub encrypted: Vec<EfView>,
    pub untrusted: Vec<EfView>,
    pub has_mac: bool,
}

/// AES-SIV straight from the `aes-siv` crate (NOT through the repo's `Cipher`
/// wrappers): the simulator's independent client/attacker implementation.
/// Returns tag||ciphertext.
pub fn siv_encrypt(alg: u16, key: &[u8], nonce: &[u8], aad: &[u8], plaintext: &[u8]) -> Option<Vec<u8>> {
    match (alg, key.len()) {
        (15, 32) => Aes128Siv::new_from_slice(key).ok()?.encrypt([aad, nonce], plaintext).ok(),
        (17, 64) => Aes256Siv::new_from_slice(key).ok()?.encrypt([aad, nonce], plaintext).ok(),
        _ => None,
    }
}

pub fn siv_decrypt(alg: u16, key: &[u8], nonce: &[u8], aad: &[u8], ciphertext: &[u8]) -> Option<Vec<u8>> {
    match (alg, key.len()) {
        (15, 32) => Aes128Siv::new_from_slice(key).ok()?.decrypt([aad, nonce], ciphertext).ok(),
        (17, 64) => Aes256Siv::new_from_slice(key).ok()?.decrypt([aad, nonce], ciphertext).ok(),
        _ => None,
    }
}

/// Which protocol an NTS source speaks (the simulator cannot name `ProtocolVersion`'s
/// variants it does not need).
pub fn protocol_version(v5: bool) -> ProtocolVersion {
    if v5 { ProtocolVersion::V5 } else { ProtocolVersion::V4 }
}

/// A real `NtpSource` configured with NTS data (cookies + session ciphers), as the
/// daemon's NTS spawner would create it after a key exchange.
pub fn new_nts_source<C: SourceController>(
    addr: SocketAddr,
    config: SourceConfig,
    v5: bool,
    controller: C,
    cookies: Vec<Vec<u8>>,
    alg: u16,
    c2s: &[u8],
    s2c: &[u8],
) -> Option<(NtpSource<C>, NtpSourceActionIterator)> {
    let mut stash = CookieStash::default();
    for c in cookies {
        stash.store(c);
    }
    let nts = Box::new(SourceNtsData {
        cookies: stash,
        c2s: super::keyset::cipher_from(alg, c2s)?,
        s2c: super::keyset::cipher_from(alg, s2c)?,
    });
    Some(NtpSource::new(
        addr,
        config,
        protocol_version(v5),
        controller,
        Some(nts),
        crate::ClockId::new(),
        Arc::new(RwLock::new(NtpSourceInfo::default())),
        Arc::new(Mutex::new(HashMap::new())),
    ))
}

/// A real `NtpSource` without NTS (the "no keys" receive path).
pub fn new_plain_source<C: SourceController>(
    addr: SocketAddr,
    config: SourceConfig,
    v5: bool,
    controller: C,
) -> (NtpSource<C>, NtpSourceActionIterator) {
    NtpSource::new(
        addr,
        config,
        protocol_version(v5),
        controller,
        None,
        crate::ClockId::new(),
        Arc::new(RwLock::new(NtpSourceInfo::default())),
        Arc::new(Mutex::new(HashMap::new())),
    )
}
