//! Facade fragment "packet" (see mod.rs): re-exports / wrappers the simulator needs
//! from crate::packet-related code. Owned by the world that uses it.
