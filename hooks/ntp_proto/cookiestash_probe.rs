//! Read-only probe (child module of `ntp-proto/src/cookiestash.rs`), compiled only under
//! `--cfg pendulum_project_ntpd_rs_verif`. Owned by world w1x; never mutates state.

use super::CookieStash;

impl CookieStash {
    /// The cookies currently held, oldest (next to be used) first.
    pub(crate) fn verif_contents(&self) -> Vec<Vec<u8>> {
        (0..self.valid)
            .map(|i| self.cookies[(self.read + i) % self.cookies.len()].clone())
            .collect()
    }
}
