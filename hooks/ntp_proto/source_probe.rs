//! Read-only probe (child module of `ntp-proto/src/source.rs`), compiled only under
//! `--cfg pendulum_project_ntpd_rs_verif`. Owned by world w1c; never mutates state.

use super::NtpSource;
use crate::algorithm::SourceController;
use crate::verif::source::SourceStateView;

impl<Controller: SourceController> NtpSource<Controller> {
    /// Snapshot of the private protocol state (no side effects).
    pub fn verif_state(&self) -> SourceStateView {
        let now = tokio::time::Instant::now();
        SourceStateView {
            last_poll: self.last_poll_interval.as_log(),
            remote_min_poll: self.remote_min_poll_interval.as_log(),
            protocol_version: self.protocol_version,
            reach: self.reach.0,
            tries: self.tries,
            deny_seen: self.have_deny_rstr_response,
            pending: self.current_request_identifier.is_some(),
            pending_left_ns: self.current_request_identifier.map(|(_, until)| {
                if until >= now {
                    (until - now).as_nanos() as i128
                } else {
                    -((now - until).as_nanos() as i128)
                }
            }),
            stratum: self.stratum,
            is_nts: self.nts.is_some(),
            nts_cookies: self.nts.as_ref().map(|n| n.cookies.len()),
        }
    }

    /// Shared reference to the source controller (read-only use by the simulator).
    pub fn verif_controller(&self) -> &Controller {
        &self.controller
    }
}
