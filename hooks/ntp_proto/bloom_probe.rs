//! Read-only probe (child module of `ntp-proto/src/packet/v5/server_reference_id.rs`), compiled only
//! under `--cfg pendulum_project_ntpd_rs_verif`. Owned by world w1x; never mutates state.

use super::{BloomFilter, RemoteBloomFilter, ServerId};
use crate::verif::system::XBloomView;

impl RemoteBloomFilter {
    pub fn verif_view(&self) -> XBloomView {
        XBloomView {
            bytes: *self.filter.as_bytes(),
            chunk_size: self.chunk_size,
            next_to_request: self.next_to_request,
            last_requested: self.last_requested.map(|(o, c)| (o, c.0)),
            filled: self.is_filled,
        }
    }
}

impl ServerId {
    /// The ten 12-bit indices that make up this id.
    pub fn verif_indices(&self) -> [u16; 10] {
        let mut out = [0u16; 10];
        for (o, v) in out.iter_mut().zip(self.0.iter()) {
            *o = v.0;
        }
        out
    }
}

impl BloomFilter {
    /// Build a filter from raw bytes (simulated byzantine servers need arbitrary filters).
    pub fn verif_from_bytes(bytes: [u8; 512]) -> BloomFilter {
        BloomFilter(bytes)
    }
}
