//! Read-only probe (child module of `ntp-proto/src/nts/mod.rs`), compiled only under
//! `--cfg pendulum_project_ntpd_rs_verif`. Owned by world w3; must never mutate state.
//!
//! Being a child of `crate::nts` it can name the private message types
//! (`messages::{Request, KeyExchangeResponse, ..}`, `record::NtsRecord`, `NextProtocol`,
//! `AlgorithmDescription`). It implements the API of `crate::verif::nts::Nts`: lossless
//! conversions between the real types and the plain-data mirrors, and thin async
//! wrappers that call the REAL parsers / serialisers on any AsyncRead / AsyncWrite.

use std::borrow::Cow;

use tokio::io::{AsyncRead, AsyncWrite};

use super::messages::{ErrorResponse, KeyExchangeResponse, NoOverlapResponse, Request, SupportsResponse};
use super::record::NtsRecord;
use super::{AeadAlgorithm, AlgorithmDescription, ErrorCode, KeyExchangeClient, KeyExchangeServer, NextProtocol, NtsError, WarningCode};
use crate::verif::nts::{cipher_from_bytes, Nts, Rec, Req, Resp};

fn protos(v: &[u16]) -> Cow<'static, [NextProtocol]> {
    Cow::Owned(v.iter().map(|p| NextProtocol::from(*p)).collect())
}

fn algs(v: &[u16]) -> Cow<'static, [AeadAlgorithm]> {
    Cow::Owned(v.iter().map(|p| AeadAlgorithm::from(*p)).collect())
}

fn descs(v: &[(u16, u16)]) -> Cow<'static, [AlgorithmDescription]> {
    Cow::Owned(
        v.iter()
            .map(|(id, keysize)| AlgorithmDescription {
                id: AeadAlgorithm::from(*id),
                keysize: *keysize,
            })
            .collect(),
    )
}

fn rec_to_real(r: &Rec) -> NtsRecord<'static> {
    match r {
        Rec::EndOfMessage => NtsRecord::EndOfMessage,
        Rec::NextProtocol(v) => NtsRecord::NextProtocol { protocol_ids: protos(v) },
        Rec::Error(c) => NtsRecord::Error { errorcode: ErrorCode::from(*c) },
        Rec::Warning(c) => NtsRecord::Warning { warningcode: WarningCode::from(*c) },
        Rec::AeadAlgorithm(v) => NtsRecord::AeadAlgorithm { algorithm_ids: algs(v) },
        Rec::NewCookie(d) => NtsRecord::NewCookie { cookie_data: Cow::Owned(d.clone()) },
        Rec::Server(s) => NtsRecord::Server { name: Cow::Owned(s.clone()) },
        Rec::Port(p) => NtsRecord::Port { port: *p },
        Rec::Unknown { record_type, critical, data } => NtsRecord::Unknown {
            record_type: *record_type,
            critical: *critical,
            data: Cow::Owned(data.clone()),
        },
        Rec::KeepAlive => NtsRecord::KeepAlive,
        Rec::SupportedNextProtocolList(v) => NtsRecord::SupportedNextProtocolList { supported_protocols: protos(v) },
        Rec::SupportedAlgorithmList(v) => NtsRecord::SupportedAlgorithmList { supported_algorithms: descs(v) },
        Rec::FixedKeyRequest { c2s, s2c } => NtsRecord::FixedKeyRequest {
            c2s: Cow::Owned(c2s.clone()),
            s2c: Cow::Owned(s2c.clone()),
        },
        Rec::NtpServerDeny(s) => NtsRecord::NtpServerDeny { denied: Cow::Owned(s.clone()) },
        Rec::Authentication(s) => NtsRecord::Authentication { key: Cow::Owned(s.clone()) },
    }
}

fn rec_from_real(r: &NtsRecord<'_>) -> Rec {
    match r {
        NtsRecord::EndOfMessage => Rec::EndOfMessage,
        NtsRecord::NextProtocol { protocol_ids } => Rec::NextProtocol(protocol_ids.iter().map(|p| u16::from(*p)).collect()),
        NtsRecord::Error { errorcode } => Rec::Error(u16::from(*errorcode)),
        NtsRecord::Warning { warningcode } => Rec::Warning(u16::from(*warningcode)),
        NtsRecord::AeadAlgorithm { algorithm_ids } => Rec::AeadAlgorithm(algorithm_ids.iter().map(|p| u16::from(*p)).collect()),
        NtsRecord::NewCookie { cookie_data } => Rec::NewCookie(cookie_data.to_vec()),
        NtsRecord::Server { name } => Rec::Server(name.to_string()),
        NtsRecord::Port { port } => Rec::Port(*port),
        NtsRecord::Unknown { record_type, critical, data } => Rec::Unknown {
            record_type: *record_type,
            critical: *critical,
            data: data.to_vec(),
        },
        NtsRecord::KeepAlive => Rec::KeepAlive,
        NtsRecord::SupportedNextProtocolList { supported_protocols } => {
            Rec::SupportedNextProtocolList(supported_protocols.iter().map(|p| u16::from(*p)).collect())
        }
        NtsRecord::SupportedAlgorithmList { supported_algorithms } => {
            Rec::SupportedAlgorithmList(supported_algorithms.iter().map(|d| (u16::from(d.id), d.keysize)).collect())
        }
        NtsRecord::FixedKeyRequest { c2s, s2c } => Rec::FixedKeyRequest {
            c2s: c2s.to_vec(),
            s2c: s2c.to_vec(),
        },
        NtsRecord::NtpServerDeny { denied } => Rec::NtpServerDeny(denied.to_string()),
        NtsRecord::Authentication { key } => Rec::Authentication(key.to_string()),
    }
}

fn req_from_real(r: &Request<'_>) -> Req {
    match r {
        Request::KeyExchange { algorithms, protocols, denied_servers } => Req::KeyExchange {
            algorithms: algorithms.iter().map(|a| u16::from(*a)).collect(),
            protocols: protocols.iter().map(|a| u16::from(*a)).collect(),
            denied_servers: denied_servers.iter().map(|s| s.to_string()).collect(),
        },
        Request::FixedKey { authentication, c2s_key, s2c_key, algorithm, protocol, keep_alive } => Req::FixedKey {
            authentication: authentication.to_string(),
            c2s: c2s_key.key_bytes().to_vec(),
            s2c: s2c_key.key_bytes().to_vec(),
            algorithm: u16::from(*algorithm),
            protocol: u16::from(*protocol),
            keep_alive: *keep_alive,
        },
        Request::Support { authentication, wants_protocols, wants_algorithms, keep_alive } => Req::Support {
            authentication: authentication.to_string(),
            wants_protocols: *wants_protocols,
            wants_algorithms: *wants_algorithms,
            keep_alive: *keep_alive,
        },
    }
}

fn req_to_real(r: &Req) -> Option<Request<'static>> {
    Some(match r {
        Req::KeyExchange { algorithms, protocols, denied_servers } => Request::KeyExchange {
            algorithms: algs(algorithms),
            protocols: protos(protocols),
            denied_servers: Cow::Owned(denied_servers.iter().map(|s| Cow::Owned(s.clone())).collect()),
        },
        Req::FixedKey { authentication, c2s, s2c, algorithm, protocol, keep_alive } => Request::FixedKey {
            authentication: Cow::Owned(authentication.clone()),
            c2s_key: cipher_from_bytes(*algorithm, c2s)?,
            s2c_key: cipher_from_bytes(*algorithm, s2c)?,
            algorithm: AeadAlgorithm::from(*algorithm),
            protocol: NextProtocol::from(*protocol),
            keep_alive: *keep_alive,
        },
        Req::Support { authentication, wants_protocols, wants_algorithms, keep_alive } => Request::Support {
            authentication: Cow::Owned(authentication.clone()),
            wants_protocols: *wants_protocols,
            wants_algorithms: *wants_algorithms,
            keep_alive: *keep_alive,
        },
    })
}

fn resp_from_real(r: &KeyExchangeResponse<'_>) -> Resp {
    Resp {
        protocol: u16::from(r.protocol),
        algorithm: u16::from(r.algorithm),
        cookies: r.cookies.iter().map(|c| c.to_vec()).collect(),
        server: r.server.as_ref().map(|s| s.to_string()),
        port: r.port,
        keep_alive: r.keep_alive,
    }
}

fn resp_to_real(r: &Resp) -> KeyExchangeResponse<'static> {
    KeyExchangeResponse {
        protocol: NextProtocol::from(r.protocol),
        algorithm: AeadAlgorithm::from(r.algorithm),
        cookies: Cow::Owned(r.cookies.iter().map(|c| Cow::Owned(c.clone())).collect()),
        server: r.server.as_ref().map(|s| Cow::Owned(s.clone())),
        port: r.port,
        keep_alive: r.keep_alive,
    }
}

fn not_convertible() -> std::io::Error {
    std::io::Error::new(std::io::ErrorKind::InvalidInput, "verif: view not convertible to a real request")
}

impl Nts {
    /// REAL `NtsRecord::parse`.
    pub async fn parse_record(reader: impl AsyncRead + Unpin) -> Result<Rec, std::io::Error> {
        NtsRecord::parse(reader).await.map(|r| rec_from_real(&r))
    }

    /// REAL `NtsRecord::serialize`.
    pub async fn serialize_record(rec: &Rec, writer: impl AsyncWrite + Unpin) -> Result<(), std::io::Error> {
        rec_to_real(rec).serialize(writer).await
    }

    /// REAL `Request::parse`.
    pub async fn parse_request(reader: impl AsyncRead + Unpin) -> Result<Req, NtsError> {
        Request::parse(reader).await.map(|r| req_from_real(&r))
    }

    /// REAL `Request::serialize`.
    pub async fn serialize_request(req: &Req, writer: impl AsyncWrite + Unpin) -> Result<(), std::io::Error> {
        match req_to_real(req) {
            Some(r) => r.serialize(writer).await,
            None => Err(not_convertible()),
        }
    }

    /// REAL `KeyExchangeResponse::parse`.
    pub async fn parse_response(reader: impl AsyncRead + Unpin) -> Result<Resp, NtsError> {
        KeyExchangeResponse::parse(reader).await.map(|r| resp_from_real(&r))
    }

    /// REAL `KeyExchangeResponse::serialize`.
    pub async fn serialize_response(resp: &Resp, writer: impl AsyncWrite + Unpin) -> Result<(), std::io::Error> {
        resp_to_real(resp).serialize(writer).await
    }

    /// REAL `ErrorResponse::serialize`.
    pub async fn serialize_error_response(code: u16, writer: impl AsyncWrite + Unpin) -> Result<(), std::io::Error> {
        ErrorResponse { errorcode: ErrorCode::from(code) }.serialize(writer).await
    }

    /// REAL `NoOverlapResponse::serialize` (`None` = no overlapping protocol, `Some(p)` = no overlapping algorithm).
    pub async fn serialize_no_overlap(protocol: Option<u16>, writer: impl AsyncWrite + Unpin) -> Result<(), std::io::Error> {
        match protocol {
            None => NoOverlapResponse::NoOverlappingProtocol.serialize(writer).await,
            Some(p) => {
                NoOverlapResponse::NoOverlappingAlgorithm { protocol: NextProtocol::from(p) }
                    .serialize(writer)
                    .await
            }
        }
    }

    /// REAL `SupportsResponse::serialize`.
    pub async fn serialize_supports(
        algorithms: Option<&[(u16, u16)]>,
        protocols: Option<&[u16]>,
        keep_alive: bool,
        writer: impl AsyncWrite + Unpin,
    ) -> Result<(), std::io::Error> {
        SupportsResponse {
            algorithms: algorithms.map(descs),
            protocols: protocols.map(protos),
            keep_alive,
        }
        .serialize(writer)
        .await
    }

    /// What this client will offer (protocol ids, algorithm ids), in preference order. Read-only.
    pub fn client_offer(client: &KeyExchangeClient) -> (Vec<u16>, Vec<u16>) {
        (
            client.protocols.iter().map(|p| u16::from(*p)).collect(),
            client.algorithms.iter().map(|a| u16::from(*a)).collect(),
        )
    }

    /// What this server is configured with (protocol ids, (algorithm id, keysize)). Read-only.
    pub fn server_offer(server: &KeyExchangeServer) -> (Vec<u16>, Vec<(u16, u16)>) {
        (
            server.protocols.iter().map(|p| u16::from(*p)).collect(),
            server.algorithms.iter().map(|d| (u16::from(d.id), d.keysize)).collect(),
        )
    }
}
