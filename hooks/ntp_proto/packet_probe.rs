//! Read-only probe (child module of `ntp-proto/src/packet/mod.rs`), compiled only under
//! `--cfg pendulum_project_ntpd_rs_verif`. Owned by world w1n; never mutates state.

use super::NtpPacket;
use crate::verif::packet::PacketEfView;

impl NtpPacket<'_> {
    /// The authenticated / encrypted / untrusted extension-field lists the decoder reported.
    pub fn verif_ef_view(&self) -> PacketEfView {
        self.efdata.verif_view(self.mac.is_some())
    }
}
