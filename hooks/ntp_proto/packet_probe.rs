//! Read-only probe (child module of `ntp-proto/src/packet/mod.rs`), compiled only under
//! `--cfg pendulum_project_ntpd_rs_verif`. Owned by the world that needs it; must never mutate state.
