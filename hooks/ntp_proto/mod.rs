//! In-crate facade for the /verif simulator (compiled only under
//! `--cfg pendulum_project_ntpd_rs_verif`; included from ntp-proto/src/lib.rs).
//!
//! It (a) re-exports `pub` items that live in private modules and are not part
//! of the `__internal-api` export list, (b) wraps `pub(crate)` functions the
//! simulator has to call, and (c) holds the per-run thread-local state that
//! replaces process-global / unseedable state (ClockId counter, hasher seeds,
//! the server's monotonic clock). Nothing here changes behaviour of the code
//! under test other than making those ambient inputs a function of the run.

use std::cell::Cell;
use std::hash::{BuildHasher, Hasher};

pub use crate::algorithm::{
    InternalMeasurement, InternalSourceController, InternalStateUpdate, InternalTimeSyncController,
};

thread_local! {
    static CLOCK_ID: Cell<Option<u64>> = const { Cell::new(None) };
    static HASH_SEED: Cell<u64> = const { Cell::new(0) };
    static MONO_NS: Cell<Option<u64>> = const { Cell::new(None) };
}

/// Start of a simulated run on this thread: ids restart at 1, hash seeds and
/// the monotonic clock become functions of the run.
pub fn reset(seed: u64) {
    CLOCK_ID.with(|c| c.set(Some(1)));
    HASH_SEED.with(|c| c.set(seed));
    MONO_NS.with(|c| c.set(Some(0)));
}

/// Leave simulation mode on this thread (process-global behaviour again).
pub fn clear() {
    CLOCK_ID.with(|c| c.set(None));
    MONO_NS.with(|c| c.set(None));
}

pub(crate) fn next_clock_id() -> Option<u64> {
    CLOCK_ID.with(|c| {
        let v = c.get()?;
        c.set(Some(v + 1));
        Some(v)
    })
}

pub fn clock_id_from_raw(v: u64) -> crate::ClockId {
    crate::ClockId(v)
}

pub fn clock_id_raw(id: crate::ClockId) -> u64 {
    id.0
}

/// Set the simulated monotonic clock (nanoseconds since run start) that
/// replaces `std::time::Instant::now()` in the server's rate limiter.
pub fn set_mono_ns(ns: u64) {
    MONO_NS.with(|c| c.set(Some(ns)));
}

/// `std::time::Instant`-shaped value backed by the simulated monotonic clock.
#[derive(Debug, Clone, Copy, PartialEq, Eq, PartialOrd, Ord)]
pub struct SimInstant(u64);

impl SimInstant {
    pub fn now() -> SimInstant {
        match MONO_NS.with(|c| c.get()) {
            Some(ns) => SimInstant(ns),
            None => panic!("verif: SimInstant::now() outside a simulated run"),
        }
    }
    pub fn duration_since(&self, earlier: SimInstant) -> std::time::Duration {
        std::time::Duration::from_nanos(self.0.saturating_sub(earlier.0))
    }
    pub fn elapsed(&self) -> std::time::Duration {
        SimInstant::now().duration_since(*self)
    }
}

impl std::ops::Add<std::time::Duration> for SimInstant {
    type Output = SimInstant;
    fn add(self, d: std::time::Duration) -> SimInstant {
        SimInstant(self.0 + d.as_nanos() as u64)
    }
}

impl std::ops::Sub<SimInstant> for SimInstant {
    type Output = std::time::Duration;
    fn sub(self, o: SimInstant) -> std::time::Duration {
        self.duration_since(o)
    }
}

/// Per-run seeded replacement for `std::collections::hash_map::RandomState`.
#[derive(Debug, Clone)]
pub struct SeededState(u64);

impl SeededState {
    pub fn new() -> SeededState {
        SeededState(HASH_SEED.with(|c| c.get()))
    }
}

impl Default for SeededState {
    fn default() -> Self {
        SeededState::new()
    }
}

impl BuildHasher for SeededState {
    type Hasher = std::collections::hash_map::DefaultHasher;
    fn build_hasher(&self) -> Self::Hasher {
        let mut h = std::collections::hash_map::DefaultHasher::new();
        h.write_u64(self.0);
        h
    }
}

/// `HashMap` with a per-run seeded hasher and a `new()` constructor, so that
/// iteration order is a (varying) function of the run's seed instead of the
/// process-random `RandomState`.
#[derive(Debug, Clone)]
pub struct DetHashMap<K, V>(std::collections::HashMap<K, V, SeededState>);

impl<K, V> DetHashMap<K, V> {
    pub fn new() -> Self {
        DetHashMap(std::collections::HashMap::with_hasher(SeededState::new()))
    }
}

impl<K, V> Default for DetHashMap<K, V> {
    fn default() -> Self {
        Self::new()
    }
}

impl<K, V> std::ops::Deref for DetHashMap<K, V> {
    type Target = std::collections::HashMap<K, V, SeededState>;
    fn deref(&self) -> &Self::Target {
        &self.0
    }
}

impl<K, V> std::ops::DerefMut for DetHashMap<K, V> {
    fn deref_mut(&mut self) -> &mut Self::Target {
        &mut self.0
    }
}

// ---- raw access to the fixed-point time types (exact ground truth for oracles) ----

use crate::time_types::{NtpDuration, NtpTimestamp};

pub fn ts_from_fixed(v: u64) -> NtpTimestamp {
    NtpTimestamp::from_bits(v.to_be_bytes())
}

pub fn ts_to_fixed(t: NtpTimestamp) -> u64 {
    u64::from_be_bytes(t.to_bits())
}

pub fn dur_from_fixed(v: i64) -> NtpDuration {
    NtpDuration::from_bits((v as u64).to_be_bytes())
}

pub fn dur_to_fixed(d: NtpDuration) -> i64 {
    // timestamp + duration is a wrapping add of the raw value
    u64::from_be_bytes((NtpTimestamp::from_bits([0; 8]) + d).to_bits()) as i64
}

// ---- view types filled in by the probe child modules ----

use crate::{ClockId, packet::NtpLeapIndicator};

/// What the controller knows about one source at a decision point.
#[derive(Debug, Clone, Copy)]
pub struct SourceView {
    pub id: ClockId,
    pub usable: bool,
    pub has_snapshot: bool,
    pub offset: f64,
    pub offset_uncertainty: f64,
    pub frequency: f64,
    pub delay: f64,
    pub periodic: bool,
    pub leap: NtpLeapIndicator,
    pub synchronized: bool,
    pub source_uncertainty: f64,
    pub source_delay: f64,
    pub last_update: NtpTimestamp,
}

#[derive(Debug, Clone)]
pub struct ControllerView {
    pub in_startup: bool,
    pub desired_freq: f64,
    pub freq_offset: f64,
    pub accumulated_steps: f64,
    pub sources: Vec<SourceView>,
}


// ---- per-area facade fragments (each owned by one world; keep them compiling) ----

#[path = "facade_source.rs"]
pub mod source;
#[path = "facade_server.rs"]
pub mod server;
#[path = "facade_keyset.rs"]
pub mod keyset;
#[path = "facade_nts.rs"]
pub mod nts;
#[path = "facade_packet.rs"]
pub mod packet;
#[path = "facade_system.rs"]
pub mod system;
