//! Facade fragment "system" (see mod.rs): re-exports / wrappers the simulator needs
//! from crate::system-related code. Owned by the world that uses it.
