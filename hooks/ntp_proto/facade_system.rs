//! Facade fragment "system" (see mod.rs): re-exports / wrappers the simulator needs
//! from crate::system-related code. Owned by world w1x (NTS client + NTPv5 extras).

use crate::source::ProtocolVersion;

pub use crate::packet::v5::server_reference_id::RemoteBloomFilter;
pub use crate::packet::{AesSivCmac256, AesSivCmac512};

/// State of the remote Bloom filter transfer of one source.
#[derive(Debug, Clone, PartialEq, Eq)]
pub struct XBloomView {
    pub bytes: [u8; 512],
    pub chunk_size: u16,
    pub next_to_request: u16,
    /// (offset, client cookie) of the outstanding chunk request
    pub last_requested: Option<(u16, [u8; 8])>,
    pub filled: bool,
}

/// Everything about an `NtpSource` the w1x oracles compare before/after an event.
#[derive(Debug, Clone, PartialEq, Eq)]
pub struct XSourceView {
    pub nts: bool,
    /// cookies held, oldest first
    pub stash: Vec<Vec<u8>>,
    pub remote_min_poll: i8,
    pub last_poll: i8,
    pub protocol_version: ProtocolVersion,
    pub reach: u8,
    pub tries: usize,
    pub have_deny_rstr: bool,
    pub pending: bool,
    pub pending_valid: bool,
    pub stratum: u8,
    pub reference_id: [u8; 4],
    pub source_id: [u8; 4],
    pub bloom: XBloomView,
}

/// NTS client sessions minted in-crate (instead of a full key exchange).
pub mod ntsclient {
    use crate::cookiestash::CookieStash;
    use crate::keyset::{DecodedServerCookie, KeySet};
    use crate::nts::AeadAlgorithm;
    use crate::packet::{AesSivCmac256, AesSivCmac512, Cipher};
    use crate::source::SourceNtsData;

    /// Key length in bytes for the two supported AEADs.
    pub fn key_len(alg512: bool) -> usize {
        if alg512 { 64 } else { 32 }
    }

    pub fn cipher(alg512: bool, key: &[u8]) -> Box<dyn Cipher> {
        if alg512 {
            Box::new(AesSivCmac512::try_from(key.iter().copied()).expect("64-byte key"))
        } else {
            Box::new(AesSivCmac256::try_from(key).expect("32-byte key"))
        }
    }

    fn decoded(alg512: bool, c2s: &[u8], s2c: &[u8]) -> DecodedServerCookie {
        DecodedServerCookie {
            algorithm: if alg512 {
                AeadAlgorithm::AeadAesSivCmac512
            } else {
                AeadAlgorithm::AeadAesSivCmac256
            },
            s2c: cipher(alg512, s2c),
            c2s: cipher(alg512, c2s),
        }
    }

    /// A server cookie for the session (what a key exchange would hand out).
    pub fn mint_cookie(keyset: &KeySet, alg512: bool, c2s: &[u8], s2c: &[u8]) -> Vec<u8> {
        keyset.encode_cookie(&decoded(alg512, c2s, s2c))
    }

    /// Does the key set still accept this cookie (and for which keys)?
    pub fn cookie_keys(keyset: &KeySet, cookie: &[u8]) -> Option<(Vec<u8>, Vec<u8>)> {
        keyset
            .decode_cookie(cookie)
            .ok()
            .map(|d| (d.c2s.key_bytes().to_vec(), d.s2c.key_bytes().to_vec()))
    }

    /// Client side of a finished key exchange: keys plus the initial cookies in delivery order.
    pub fn nts_data(alg512: bool, c2s: &[u8], s2c: &[u8], cookies: &[Vec<u8>]) -> Box<SourceNtsData> {
        let mut stash = CookieStash::default();
        for c in cookies {
            stash.store(c.clone());
        }
        Box::new(SourceNtsData {
            cookies: stash,
            c2s: cipher(alg512, c2s),
            s2c: cipher(alg512, s2c),
        })
    }
}

/// Raw bytes of a reference id (for comparison with header bytes seen on the simulated wire).
pub fn refid_bytes(r: crate::ReferenceId) -> [u8; 4] {
    r.to_bytes()
}

/// Pieces needed to drive a `RemoteBloomFilter` directly (C34: the filter's own checks,
/// which `NtpSource` shadows by validating the client cookie first).
pub use crate::packet::v5::NtpClientCookie;
pub use crate::packet::v5::extension_fields::{ReferenceIdRequest, ReferenceIdResponse};
