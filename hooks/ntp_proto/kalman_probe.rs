//! Read-only probe into `KalmanClockController` (child module of
//! `algorithm::kalman`, so it can see private fields). Used by the simulator's
//! oracles for C01–C04, C06, C37. Never mutates the controller.

use super::{KalmanClockController, KalmanSourceMessage, SourceSnapshot};
use crate::verif::{ControllerView, SourceView};
use crate::{ClockId, clock::NtpClock, packet::NtpLeapIndicator, time_types::NtpTimestamp};

fn view_of(id: ClockId, snap: Option<&SourceSnapshot>, usable: bool) -> SourceView {
    match snap {
        Some(s) => SourceView {
            id,
            usable,
            has_snapshot: true,
            offset: s.offset(),
            offset_uncertainty: s.offset_uncertainty(),
            frequency: s.state.frequency(),
            delay: s.delay,
            periodic: s.period.is_some(),
            leap: s.leap_indicator,
            synchronized: s.leap_indicator.is_synchronized(),
            source_uncertainty: s.source_uncertainty.to_seconds(),
            source_delay: s.source_delay.to_seconds(),
            last_update: s.last_update,
        },
        None => SourceView {
            id,
            usable,
            has_snapshot: false,
            offset: 0.0,
            offset_uncertainty: 0.0,
            frequency: 0.0,
            delay: 0.0,
            periodic: false,
            leap: NtpLeapIndicator::Unknown,
            synchronized: false,
            source_uncertainty: 0.0,
            source_delay: 0.0,
            last_update: NtpTimestamp::default(),
        },
    }
}

impl<C: NtpClock> KalmanClockController<C> {
    /// Current view (sources sorted by id so the result does not depend on map order).
    pub fn verif_view(&self) -> ControllerView {
        let mut sources: Vec<SourceView> = self
            .sources
            .iter()
            .map(|(id, (snap, usable))| view_of(*id, snap.as_ref(), *usable))
            .collect();
        sources.sort_by_key(|s| s.id);
        ControllerView {
            in_startup: self.in_startup,
            desired_freq: self.desired_freq,
            freq_offset: self.freq_offset,
            accumulated_steps: self.timedata.accumulated_steps.to_seconds(),
            sources,
        }
    }

    /// The per-source estimates as they will stand at the decision point of
    /// `source_message(id, message)`: the message's snapshot stored for `id` and
    /// every filter progressed to the message's time (the two preparatory steps of
    /// `update_clock`, performed on a copy with the real `progress_time`).
    /// `None` when the source is unknown or the update would be skipped because a
    /// filter is ahead of the message's time.
    pub fn verif_decision_view(&self, id: ClockId, message: &KalmanSourceMessage) -> Option<Vec<SourceView>> {
        if !self.sources.contains_key(&id) {
            return None;
        }
        let time = message.inner.last_update;
        let mut copy: Vec<(ClockId, Option<SourceSnapshot>, bool)> = self
            .sources
            .iter()
            .map(|(k, (s, u))| (*k, if *k == id { Some(message.inner) } else { *s }, *u))
            .collect();
        if copy
            .iter()
            .filter_map(|(_, s, _)| s.map(|v| v.state.time))
            .any(|t| time - t < crate::time_types::NtpDuration::ZERO)
        {
            return None;
        }
        for (_, s, _) in &mut copy {
            if let Some(snapshot) = s {
                snapshot.state = snapshot.state.progress_time(time, snapshot.wander, snapshot.period);
            }
        }
        copy.sort_by_key(|c| c.0);
        Some(copy.iter().map(|(k, s, u)| view_of(*k, s.as_ref(), *u)).collect())
    }
}

impl KalmanSourceMessage {
    pub fn verif_leap(&self) -> NtpLeapIndicator {
        self.inner.leap_indicator
    }
    pub fn verif_time(&self) -> NtpTimestamp {
        self.inner.last_update
    }
    pub fn verif_offset(&self) -> f64 {
        self.inner.offset()
    }
    pub fn verif_uncertainty(&self) -> f64 {
        self.inner.offset_uncertainty()
    }
    pub fn verif_delay(&self) -> f64 {
        self.inner.delay
    }
}
