//! Read-only probe (child module of `ntp-proto/src/keyset.rs`), compiled only under
//! `--cfg pendulum_project_ntpd_rs_verif`. Owned by world w1n; never mutates state.

use super::KeySet;
use crate::packet::Cipher;
use crate::verif::keyset::KeySetView;

impl KeySet {
    /// Number of keys, index of the primary key and id offset (C26 "issued under the newest key").
    pub fn verif_view(&self) -> KeySetView {
        KeySetView {
            n_keys: self.keys.len(),
            primary: self.primary,
            id_offset: self.id_offset,
            keys: self.keys.iter().map(|k| k.key_bytes().to_vec()).collect(),
        }
    }
}
