//! Facade fragment "keyset" (see mod.rs): re-exports / wrappers the simulator needs
//! from crate::keyset-related code. Owned by the world that uses it.
