//! Facade fragment "keyset" (see mod.rs): re-exports / wrappers the simulator needs
//! from crate::keyset-related code. Owned by world w1n (NTS packet/cookie/keyset).
//!
//! Everything here is a thin wrapper around `pub(crate)` items: the simulator
//! mints NTS sessions in-crate (`KeySet::encode_cookie`) and decodes cookies with
//! the real `KeySet::decode_cookie`; session keys cross the boundary as plain bytes.

use crate::keyset::{DecodedServerCookie, KeySet};
use crate::nts::AeadAlgorithm;
use crate::packet::{AesSivCmac256, AesSivCmac512, Cipher};

pub const ALG_SIV_CMAC_256: u16 = 15;
pub const ALG_SIV_CMAC_512: u16 = 17;

/// Session keys as plain data (what a key exchange would have produced).
#[derive(Clone, Debug, PartialEq, Eq)]
pub struct SessionKeys {
    pub alg: u16,
    pub s2c: Vec<u8>,
    pub c2s: Vec<u8>,
}

/// Key length in bytes of the given AEAD algorithm id (None = unknown algorithm).
pub fn key_len(alg: u16) -> Option<usize> {
    match AeadAlgorithm::from(alg) {
        AeadAlgorithm::AeadAesSivCmac256 => Some(32),
        AeadAlgorithm::AeadAesSivCmac512 => Some(64),
        AeadAlgorithm::Unknown(_) => None,
    }
}

/// The repo's cipher object for (alg, key bytes).
pub fn cipher_from(alg: u16, key: &[u8]) -> Option<Box<dyn Cipher>> {
    match AeadAlgorithm::from(alg) {
        AeadAlgorithm::AeadAesSivCmac256 => Some(Box::new(AesSivCmac256::try_from(key).ok()?)),
        AeadAlgorithm::AeadAesSivCmac512 => Some(Box::new(AesSivCmac512::try_from(key).ok()?)),
        AeadAlgorithm::Unknown(_) => None,
    }
}

pub fn make_cookie_keys(k: &SessionKeys) -> Option<DecodedServerCookie> {
    Some(DecodedServerCookie {
        algorithm: AeadAlgorithm::from(k.alg),
        s2c: cipher_from(k.alg, &k.s2c)?,
        c2s: cipher_from(k.alg, &k.c2s)?,
    })
}

pub fn cookie_keys_view(c: &DecodedServerCookie) -> SessionKeys {
    SessionKeys {
        alg: u16::from(c.algorithm),
        s2c: c.s2c.key_bytes().to_vec(),
        c2s: c.c2s.key_bytes().to_vec(),
    }
}

/// Real `KeySet::encode_cookie` (what the key-exchange server and the NTP server call).
pub fn encode_cookie(ks: &KeySet, k: &SessionKeys) -> Option<Vec<u8>> {
    Some(ks.encode_cookie(&make_cookie_keys(k)?))
}

/// Real `KeySet::decode_cookie`.
pub fn decode_cookie(ks: &KeySet, cookie: &[u8]) -> Option<SessionKeys> {
    ks.decode_cookie(cookie).ok().map(|c| cookie_keys_view(&c))
}

/// Read-only view of a key set (filled by keyset_probe.rs).
#[derive(Clone, Debug, PartialEq, Eq)]
pub struct KeySetView {
    pub n_keys: usize,
    pub primary: u32,
    pub id_offset: u32,
    /// raw master keys, oldest first (used only to check that they never show up on the wire)
    pub keys: Vec<Vec<u8>>,
}
