//! Facade fragment "server" (see mod.rs): re-exports / wrappers the simulator needs
//! from crate::server-related code. Owned by the world that uses it.
//!
//! Owner: world w1s (NTP server world). Thin wrappers only: the simulated NTS clients need to mint
//! cookies under the server's key set (as a key exchange would) and to name the cipher / Bloom
//! filter types that live in private modules.

use crate::keyset::{DecodedServerCookie, KeySet};
use crate::nts::AeadAlgorithm;

pub use crate::packet::v5::server_reference_id::{BloomFilter, ServerId};
pub use crate::packet::{AesSivCmac256, AesSivCmac512};

/// Session keys as a key exchange would hand them to the server for cookie minting.
/// `algorithm` is the IANA AEAD id (15 = AES-SIV-CMAC-256, 32-byte keys; 17 = AES-SIV-CMAC-512, 64-byte keys).
pub fn make_cookie(algorithm: u16, s2c: &[u8], c2s: &[u8]) -> Option<DecodedServerCookie> {
    let algorithm = AeadAlgorithm::from(algorithm);
    Some(match algorithm {
        AeadAlgorithm::AeadAesSivCmac256 => DecodedServerCookie {
            algorithm,
            s2c: Box::new(AesSivCmac256::try_from(s2c).ok()?),
            c2s: Box::new(AesSivCmac256::try_from(c2s).ok()?),
        },
        AeadAlgorithm::AeadAesSivCmac512 => DecodedServerCookie {
            algorithm,
            s2c: Box::new(AesSivCmac512::try_from(s2c.iter().copied()).ok()?),
            c2s: Box::new(AesSivCmac512::try_from(c2s.iter().copied()).ok()?),
        },
        AeadAlgorithm::Unknown(_) => return None,
    })
}

/// `KeySet::encode_cookie` (pub(crate)): mint a cookie under the key set's primary key.
pub fn encode_cookie(keyset: &KeySet, cookie: &DecodedServerCookie) -> Vec<u8> {
    keyset.encode_cookie(cookie)
}
