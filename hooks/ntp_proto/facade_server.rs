//! Facade fragment "server" (see mod.rs): re-exports / wrappers the simulator needs
//! from crate::server-related code. Owned by the world that uses it.
