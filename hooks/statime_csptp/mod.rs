//! In-crate facade of `statime-csptp` for the /verif simulator (hook H13; compiled
//! only under `--cfg pendulum_project_ntpd_rs_verif`, included from
//! statime-csptp/src/lib.rs as `statime_csptp::verif`).
//!
//! `InternalState` has crate-private fields and `CsptpManager::state` is
//! crate-private, so the rest of the daemon (played by the simulator) has no
//! public way to put the server into an arbitrary state. These accessors do
//! nothing but read / assign those fields; no protocol code is changed.
//! The crate is `no_std`: nothing from `std` is used here.

use ntp_proto::{ClockId, TimeSnapshot};

use crate::{CsptpManager, CsptpState, StateMutex};

/// Copy of everything inside [`InternalState`].
#[derive(Debug, Clone, Copy)]
pub struct StateView {
    pub csptp_state: CsptpState,
    pub time_snapshot: TimeSnapshot,
    pub active_source: Option<ClockId>,
}

/// Read the manager's internal state.
pub fn read_state<M: StateMutex>(manager: &CsptpManager<M>) -> StateView {
    manager.state.with_ref(|s| StateView {
        csptp_state: s.csptp_state,
        time_snapshot: s.time_snapshot,
        active_source: s.active_source,
    })
}

/// Overwrite the manager's internal state (the simulator acting as "the rest of the daemon").
pub fn write_state<M: StateMutex>(manager: &CsptpManager<M>, v: StateView) {
    manager.state.with_mut(|s| {
        s.csptp_state = v.csptp_state;
        s.time_snapshot = v.time_snapshot;
        s.active_source = v.active_source;
    });
}
