//! Read-only probe, included as a child module of `ntpd::daemon::spawn::pool`
//! under `--cfg pendulum_project_ntpd_rs_verif` (owned by world W4).

use crate::daemon::verif::spawn::PoolView;

impl super::PoolSpawner {
    /// Active sources as the spawner sees them and the unused resolved addresses.
    pub fn verif_view(&self) -> PoolView {
        PoolView {
            current: self
                .current_sources
                .iter()
                .map(|p| (ntp_proto::verif::clock_id_raw(p.id), p.addr))
                .collect(),
            known_ips: self.known_ips.clone(),
        }
    }
}
