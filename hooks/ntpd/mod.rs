//! In-crate facade of `ntpd` for the /verif simulator (child module of
//! `ntpd::daemon`, re-exported as `ntpd::verif`; compiled only under
//! `--cfg pendulum_project_ntpd_rs_verif`). Each fragment is owned by one world.

#[path = "facade_spawn.rs"]
pub mod spawn;
#[path = "facade_keys.rs"]
pub mod keys;
#[path = "facade_observe.rs"]
pub mod observe;
#[path = "facade_sock.rs"]
pub mod sock;
#[path = "facade_server.rs"]
pub mod server;
#[path = "facade_source.rs"]
pub mod source;
