//! Read-only probe, included as a child module of `ntpd::daemon::spawn::standard`
//! under `--cfg pendulum_project_ntpd_rs_verif` (owned by world W4).

use crate::daemon::verif::spawn::StandardView;

impl super::StandardSpawner {
    pub fn verif_view(&self) -> StandardView {
        StandardView {
            resolved: self.resolved,
            has_spawned: self.has_spawned,
        }
    }
}
