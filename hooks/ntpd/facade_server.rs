//! ntpd facade fragment "server": re-exports / wrappers (and per-run thread-local seams) for the world that owns it.
//!
//! Owner: world w1s (NTP server world). Hook H14: a simulated UDP socket with the same `recv` /
//! `send_from_to` surface as `timestamped_socket::socket::Socket<SocketAddr, Open>`, so that the
//! REAL `ServerTask::serve` loop (request-sized reply buffer, key set refresh, `ServerStats`
//! accounting, ENETDOWN reopen) runs against the simulator's network. Everything the socket does
//! is decided by the harness (per-run state installed in a thread-local before the task is
//! spawned); nothing here draws randomness or reads a real clock.

use std::collections::VecDeque;
use std::future::Future;
use std::net::SocketAddr;
use std::pin::Pin;
use std::sync::{Arc, Mutex};
use std::task::{Context, Poll, Waker};

use timestamped_socket::socket::{GeneralTimestampMode, RecvResult, Timestamp, TimestampData};

pub use super::super::config::ServerConfig as DaemonServerConfig;
pub use super::super::server::{ServerStats, ServerTask};

pub const ENETDOWN: i32 = libc::ENETDOWN;
pub const EHOSTUNREACH: i32 = libc::EHOSTUNREACH;

/// What the harness hands to the socket's receive side.
#[derive(Debug, Clone)]
pub enum Inbound {
    Datagram {
        bytes: Vec<u8>,
        remote: SocketAddr,
        local: SocketAddr,
        /// software receive timestamp (unix seconds, nanoseconds); `None` = the kernel gave no timestamp
        timestamp: Option<(i64, u32)>,
    },
    /// `recv` fails with this raw OS error
    Error(i32),
}

#[derive(Debug, Clone)]
pub struct Outbound {
    pub bytes: Vec<u8>,
    pub from: SocketAddr,
    pub to: SocketAddr,
    /// the harness made this send fail (the datagram is not on the wire)
    pub failed: bool,
}

#[derive(Debug, Default)]
pub struct SockState {
    pub inbox: VecDeque<Inbound>,
    pub outbox: Vec<Outbound>,
    /// the server task is parked in `recv` with an empty inbox
    pub idle: bool,
    /// number of successful `open_ip` calls / failed ones so far
    pub opens: u64,
    pub open_failures: u64,
    /// the next n `open_ip` calls fail
    pub fail_next_opens: u32,
    /// the next n `send_from_to` calls fail
    pub fail_next_sends: u32,
    recv_waker: Option<Waker>,
    idle_waker: Option<Waker>,
}

pub type SharedSock = Arc<Mutex<SockState>>;

thread_local! {
    static CURRENT: std::cell::RefCell<std::collections::BTreeMap<SocketAddr, SharedSock>> =
        const { std::cell::RefCell::new(std::collections::BTreeMap::new()) };
}

/// Install the per-run socket state for listen address `addr` on this thread (before spawning the server task).
pub fn install(addr: SocketAddr, state: SharedSock) {
    CURRENT.with(|c| c.borrow_mut().insert(addr, state));
}

pub fn uninstall_all() {
    CURRENT.with(|c| c.borrow_mut().clear());
}

/// Harness side: queue something for the server's `recv` and wake it.
pub fn push(state: &SharedSock, item: Inbound) {
    let w = {
        let mut s = state.lock().unwrap();
        s.inbox.push_back(item);
        s.idle = false;
        s.recv_waker.take()
    };
    if let Some(w) = w {
        w.wake();
    }
}

/// Harness side: mark the server busy (e.g. after sending on its key set channel) so that
/// `wait_idle` waits for it to come back to `recv`.
pub fn mark_busy(state: &SharedSock) {
    state.lock().unwrap().idle = false;
}

/// Harness side: resolves once the server task is parked in `recv` with an empty inbox.
pub fn wait_idle(state: &SharedSock) -> WaitIdle {
    WaitIdle { state: state.clone() }
}

pub struct WaitIdle {
    state: SharedSock,
}

impl Future for WaitIdle {
    type Output = ();
    fn poll(self: Pin<&mut Self>, cx: &mut Context<'_>) -> Poll<()> {
        let mut s = self.state.lock().unwrap();
        if s.idle && s.inbox.is_empty() {
            Poll::Ready(())
        } else {
            s.idle_waker = Some(cx.waker().clone());
            Poll::Pending
        }
    }
}

pub struct SimSocket {
    state: SharedSock,
    mode: GeneralTimestampMode,
}

/// Replacement for `timestamped_socket::socket::open_ip` under the verif cfg.
pub fn open_ip(addr: SocketAddr, timestamping: GeneralTimestampMode, _reuse_addr: bool) -> std::io::Result<SimSocket> {
    let state = CURRENT
        .with(|c| c.borrow().get(&addr).cloned())
        .expect("verif: open_ip for an address no simulated run installed");
    {
        let mut s = state.lock().unwrap();
        if s.fail_next_opens > 0 {
            s.fail_next_opens -= 1;
            s.open_failures += 1;
            return Err(std::io::Error::from_raw_os_error(libc::EADDRNOTAVAIL));
        }
        s.opens += 1;
    }
    Ok(SimSocket { state, mode: timestamping })
}

pub struct RecvFut<'a> {
    sock: &'a SimSocket,
    buf: &'a mut [u8],
}

impl Future for RecvFut<'_> {
    type Output = std::io::Result<RecvResult<SocketAddr>>;
    fn poll(self: Pin<&mut Self>, cx: &mut Context<'_>) -> Poll<Self::Output> {
        let this = self.get_mut();
        let mut s = this.sock.state.lock().unwrap();
        match s.inbox.pop_front() {
            Some(Inbound::Datagram { bytes, remote, local, timestamp }) => {
                s.idle = false;
                // UDP semantics: a datagram longer than the buffer is cut to the buffer
                let n = bytes.len().min(this.buf.len());
                this.buf[..n].copy_from_slice(&bytes[..n]);
                let timestamp_data = TimestampData {
                    timestamp_mode: this.sock.mode.into(),
                    hardware: None,
                    software: timestamp.map(|(seconds, nanos)| Timestamp { seconds, nanos }),
                };
                Poll::Ready(Ok(RecvResult {
                    bytes_read: n,
                    remote_addr: remote,
                    local_addr: local,
                    timestamp_data,
                }))
            }
            Some(Inbound::Error(code)) => {
                s.idle = false;
                Poll::Ready(Err(std::io::Error::from_raw_os_error(code)))
            }
            None => {
                s.idle = true;
                s.recv_waker = Some(cx.waker().clone());
                let w = s.idle_waker.take();
                drop(s);
                if let Some(w) = w {
                    w.wake();
                }
                Poll::Pending
            }
        }
    }
}

impl SimSocket {
    pub fn recv<'a>(&'a self, buf: &'a mut [u8]) -> RecvFut<'a> {
        RecvFut { sock: self, buf }
    }

    pub async fn send_from_to(&mut self, buf: &[u8], from: SocketAddr, to: SocketAddr) -> std::io::Result<TimestampData> {
        let mut s = self.state.lock().unwrap();
        let failed = if s.fail_next_sends > 0 {
            s.fail_next_sends -= 1;
            true
        } else {
            false
        };
        s.outbox.push(Outbound { bytes: buf.to_vec(), from, to, failed });
        if failed {
            Err(std::io::Error::from_raw_os_error(libc::ENETUNREACH))
        } else {
            Ok(TimestampData { timestamp_mode: self.mode.into(), hardware: None, software: None })
        }
    }
}
