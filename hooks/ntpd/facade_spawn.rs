//! ntpd facade fragment "spawn": re-exports / wrappers (and per-run thread-local seams) for the world that owns it.
//!
//! Owned by world W4 (`/verif/sim/worlds/w4_spawn`). Compiled only under
//! `--cfg pendulum_project_ntpd_rs_verif` as `ntpd::verif::spawn`.
//!
//! Contents:
//! * re-exports of the spawner machinery (`spawner_task`, the `Spawner` trait,
//!   the event types, the real `PoolSpawner` / `StandardSpawner` and their
//!   configuration types);
//! * H8: the per-run simulated resolver consulted by
//!   `NormalizedAddress::lookup_host` (counts every query);
//! * H9: the per-run replacement of the UDP `connect_address` reachability
//!   probe in `resolve_single_ntp_server`, and the per-run `SpawnerId` counter.
//!
//! None of this calls into simkit: the simulator installs closures, so every
//! decision is still taken (and recorded) on the simulator's side.

use std::cell::{Cell, RefCell};
use std::net::SocketAddr;

pub use crate::daemon::config::{NormalizedAddress, NtpAddress, PoolSourceConfig, StandardSource};
pub use crate::daemon::spawn::pool::{PoolSpawnError, PoolSpawner};
pub use crate::daemon::spawn::standard::{StandardSpawnError, StandardSpawner};
pub use crate::daemon::spawn::{
    NtpSourceCreateParameters, SourceCreateParameters, SourceRemovalReason, SourceRemovedEvent,
    SpawnAction, SpawnEvent, Spawner, SpawnerId, SystemEvent, spawner_task,
};
pub use crate::daemon::system::{MESSAGE_BUFFER_SIZE, NETWORK_WAIT_PERIOD};

/// What the simulated resolver answers to one query.
pub struct DnsReply {
    /// simulated time the lookup takes before it returns
    pub delay: std::time::Duration,
    pub result: std::io::Result<Vec<SocketAddr>>,
}

type Resolver = Box<dyn FnMut(&str, u16) -> DnsReply>;
type RouteCheck = Box<dyn FnMut(SocketAddr) -> std::io::Result<()>>;

thread_local! {
    static RESOLVER: RefCell<Option<Resolver>> = const { RefCell::new(None) };
    static ROUTE: RefCell<Option<RouteCheck>> = const { RefCell::new(None) };
    static DNS_QUERIES: Cell<u64> = const { Cell::new(0) };
    static SPAWNER_ID: Cell<Option<u64>> = const { Cell::new(None) };
}

/// Start of a simulated run on this thread: spawner ids restart at 1, the
/// query counter at 0, no resolver installed.
pub fn reset() {
    RESOLVER.with(|r| *r.borrow_mut() = None);
    ROUTE.with(|r| *r.borrow_mut() = None);
    DNS_QUERIES.with(|c| c.set(0));
    SPAWNER_ID.with(|c| c.set(Some(1)));
}

/// Leave simulation mode on this thread.
pub fn clear() {
    RESOLVER.with(|r| *r.borrow_mut() = None);
    ROUTE.with(|r| *r.borrow_mut() = None);
    SPAWNER_ID.with(|c| c.set(None));
}

/// Install the simulated resolver for this run (thread).
pub fn set_resolver(f: impl FnMut(&str, u16) -> DnsReply + 'static) {
    RESOLVER.with(|r| *r.borrow_mut() = Some(Box::new(f)));
}

/// Install the simulated "is there a route" answer that replaces the real
/// UDP `connect_address` probe. Without one (but with a resolver installed)
/// every address is reachable.
pub fn set_route_check(f: impl FnMut(SocketAddr) -> std::io::Result<()> + 'static) {
    ROUTE.with(|r| *r.borrow_mut() = Some(Box::new(f)));
}

/// Number of `lookup_host` calls that reached the resolver seam in this run.
pub fn dns_queries() -> u64 {
    DNS_QUERIES.with(|c| c.get())
}

/// H8: called first thing by `NormalizedAddress::lookup_host`. `None` = no
/// simulated resolver on this thread, use the real one.
pub(crate) async fn sim_lookup_host(
    server_name: &str,
    port: u16,
) -> Option<std::io::Result<Vec<SocketAddr>>> {
    // The closure is called synchronously (nothing thread-local is held across
    // the await, so the caller's future stays `Send`).
    let reply = RESOLVER.with(|r| {
        let mut r = r.borrow_mut();
        let f = r.as_mut()?;
        DNS_QUERIES.with(|c| c.set(c.get() + 1));
        Some(f(server_name, port))
    })?;
    if !reply.delay.is_zero() {
        tokio::time::sleep(reply.delay).await;
    }
    Some(reply.result)
}

/// H9: replaces the UDP `connect_address` probe. `None` = not simulated.
pub(crate) fn sim_route_check(addr: SocketAddr) -> Option<std::io::Result<()>> {
    let simulated = RESOLVER.with(|r| r.borrow().is_some());
    if !simulated {
        return None;
    }
    ROUTE.with(|r| match r.borrow_mut().as_mut() {
        Some(f) => Some(f(addr)),
        None => Some(Ok(())),
    })
}

/// H9: per-run `SpawnerId` counter (`None` = use the process-global one).
pub(crate) fn next_spawner_id() -> Option<u64> {
    SPAWNER_ID.with(|c| {
        let v = c.get()?;
        c.set(Some(v + 1));
        Some(v)
    })
}

/// `NormalizedAddress::new_from_parts` is `pub(crate)`.
pub fn normalized_address(server_name: &str, port: u16) -> NormalizedAddress {
    NormalizedAddress::new_from_parts(server_name, port)
}

/// Read-only view of a `PoolSpawner` (filled by the probe in pool.rs).
#[derive(Debug, Clone, PartialEq, Eq)]
pub struct PoolView {
    pub current: Vec<(u64, SocketAddr)>,
    pub known_ips: Vec<SocketAddr>,
}

/// Read-only view of a `StandardSpawner` (filled by the probe in standard.rs).
#[derive(Debug, Clone, PartialEq, Eq)]
pub struct StandardView {
    pub resolved: Option<SocketAddr>,
    pub has_spawned: bool,
}
