//! ntpd facade fragment "observe" (owned by world w5/C38): re-exports of the
//! observation-socket framing and of the published state types, which live in
//! modules that are private to the `ntpd` crate. No behaviour of its own.

pub use super::super::observer::{ObservableServerState, ObservableState, ProgramData};
pub use super::super::server::{Counter, ServerStats};
pub use super::super::sockets::{read_json, write_json};
