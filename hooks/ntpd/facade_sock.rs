//! ntpd facade fragment "sock" (owned by world w8/w9, hook H11): a simulated
//! unix datagram endpoint that replaces `tokio::net::UnixDatagram` inside
//! `daemon/sock_source.rs` under the verif guard, plus a wrapper to start the
//! real `SockSourceTask`.
//!
//! The endpoint is a per-thread (= per simulated run) queue + waker. It mirrors
//! the two properties of a real `AF_UNIX/SOCK_DGRAM` `recv(2)` that matter to the
//! task: one call returns one datagram, and a datagram longer than the caller's
//! buffer is silently cut to the buffer length (the return value is the number
//! of bytes copied, the excess is discarded; no MSG_TRUNC is requested by tokio).
//! Nothing here draws randomness: the simulator decides what is queued and when.

use std::cell::RefCell;
use std::collections::VecDeque;
use std::path::{Path, PathBuf};
use std::task::{Poll, Waker};

pub use super::super::ntp_source::{MsgForSystem, SourceChannels};

enum Item {
    Data(Vec<u8>),
    Error(std::io::ErrorKind),
}

#[derive(Default)]
struct Endpoint {
    bound: Vec<PathBuf>,
    queue: VecDeque<Item>,
    waker: Option<Waker>,
    /// number of queue items handed to `recv` callers so far
    consumed: u64,
    /// buffer length the most recent `recv` caller offered
    last_buf_len: usize,
    fail_next_bind: bool,
}

thread_local! {
    static EP: RefCell<Endpoint> = RefCell::new(Endpoint::default());
}

/// Stand-in for `tokio::net::UnixDatagram` (only the surface sock_source.rs uses).
#[derive(Debug)]
pub struct UnixDatagram {
    _private: (),
}

impl UnixDatagram {
    pub fn bind<P: AsRef<Path>>(path: P) -> std::io::Result<UnixDatagram> {
        EP.with(|e| {
            let mut e = e.borrow_mut();
            if e.fail_next_bind {
                e.fail_next_bind = false;
                return Err(std::io::Error::new(std::io::ErrorKind::PermissionDenied, "simulated bind failure"));
            }
            e.bound.push(path.as_ref().to_path_buf());
            Ok(UnixDatagram { _private: () })
        })
    }

    /// Cancel safe: an item leaves the queue only in the poll that returns it.
    pub async fn recv(&self, buf: &mut [u8]) -> std::io::Result<usize> {
        std::future::poll_fn(|cx| {
            EP.with(|e| {
                let mut e = e.borrow_mut();
                e.last_buf_len = buf.len();
                match e.queue.pop_front() {
                    Some(Item::Data(d)) => {
                        e.consumed += 1;
                        let n = d.len().min(buf.len());
                        buf[..n].copy_from_slice(&d[..n]);
                        Poll::Ready(Ok(n))
                    }
                    Some(Item::Error(kind)) => {
                        e.consumed += 1;
                        Poll::Ready(Err(std::io::Error::new(kind, "simulated recv error")))
                    }
                    None => {
                        e.waker = Some(cx.waker().clone());
                        Poll::Pending
                    }
                }
            })
        })
        .await
    }
}

/// Start of a run: forget everything.
pub fn reset() {
    EP.with(|e| *e.borrow_mut() = Endpoint::default());
}

fn wake() {
    let w = EP.with(|e| e.borrow_mut().waker.take());
    if let Some(w) = w {
        w.wake();
    }
}

/// The simulated GPSd sends one datagram.
pub fn push_datagram(bytes: Vec<u8>) {
    EP.with(|e| e.borrow_mut().queue.push_back(Item::Data(bytes)));
    wake();
}

/// The next `recv` fails with this error kind.
pub fn push_error(kind: std::io::ErrorKind) {
    EP.with(|e| e.borrow_mut().queue.push_back(Item::Error(kind)));
    wake();
}

pub fn fail_next_bind() {
    EP.with(|e| e.borrow_mut().fail_next_bind = true);
}

/// Items (datagrams and errors) handed to the task so far.
pub fn consumed() -> u64 {
    EP.with(|e| e.borrow().consumed)
}

pub fn queued() -> usize {
    EP.with(|e| e.borrow().queue.len())
}

pub fn last_buf_len() -> usize {
    EP.with(|e| e.borrow().last_buf_len)
}

pub fn bound_paths() -> Vec<PathBuf> {
    EP.with(|e| e.borrow().bound.clone())
}

/// The real `SockSourceTask::spawn` (private module `daemon::sock_source`).
pub fn spawn_sock_source<C, Controller>(
    index: ntp_proto::ClockId,
    socket_path: PathBuf,
    clock: C,
    channels: SourceChannels,
    source: ntp_proto::OneWaySource<Controller>,
) -> tokio::task::JoinHandle<()>
where
    C: 'static + ntp_proto::NtpClock + Send + Sync,
    Controller: ntp_proto::SourceController,
{
    super::super::sock_source::SockSourceTask::spawn(index, socket_path, clock, channels, source)
}
