//! ntpd facade fragment "sock": re-exports / wrappers (and per-run thread-local seams) for the world that owns it.
