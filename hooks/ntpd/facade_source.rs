//! ntpd facade fragment "source": re-exports / wrappers (and per-run thread-local seams) for the world that owns it.
//!
//! Owner: world w1c (plain NTP client source). Hook H15: a simulated connected UDP socket with the
//! `recv` / `send` surface `SourceTask::run` uses from `timestamped_socket::socket::Socket<SocketAddr, Connected>`,
//! so that the REAL `SourceTask::run` loop (send-timestamp bookkeeping that defines T1, the `< 48` byte
//! drop, a fresh socket per poll, action dispatch, `MsgForSystem`) runs against the simulator's network.
//! All traffic goes through a per-thread (= per-run) hub installed by the harness; nothing here draws
//! randomness or reads a real clock.

use std::cell::RefCell;
use std::collections::BTreeMap;
use std::marker::PhantomData;
use std::net::SocketAddr;

use timestamped_socket::socket::{GeneralTimestampMode, InterfaceTimestampMode, Timestamp, TimestampData};
pub use timestamped_socket::socket::RecvResult;

pub use super::super::ntp_source::{MsgForSystem, SourceChannels};

pub struct Connected;
pub struct Open;

/// A datagram a source task put on the wire.
#[derive(Debug, Clone)]
pub struct Outbound {
    pub socket: u64,
    pub peer: SocketAddr,
    pub bytes: Vec<u8>,
    /// simulated (paused-clock) instant of the send
    pub at: tokio::time::Instant,
    /// position in the hub's order of sends and datagram consumptions
    pub seq: u64,
    /// the "kernel" send timestamp (unix seconds, nanoseconds) handed back to the task, if any
    pub kernel_ts: Option<(i64, u32)>,
}

/// Which socket timestamps the simulated kernel provides (what `timestamp-mode` selects in the daemon).
#[derive(Debug, Clone, Copy, PartialEq, Eq, Default)]
pub enum KernelTimestamps {
    /// none: the task falls back to reading its clock ("software" mode)
    #[default]
    None,
    /// receive timestamps only ("kernel-recv")
    Recv,
    /// send and receive timestamps ("kernel-all")
    All,
}

#[derive(Default)]
struct Hub {
    next_socket: u64,
    /// open sockets: id -> (peer, inbox sender)
    open: BTreeMap<u64, (SocketAddr, tokio::sync::mpsc::UnboundedSender<Vec<u8>>)>,
    outbox: Vec<Outbound>,
    notify: Option<std::sync::Arc<tokio::sync::Notify>>,
    consumed: Option<std::sync::Arc<tokio::sync::Notify>>,
    /// counts sends and consumptions, in the order the tasks performed them
    seq: u64,
    last_consumed_seq: u64,
    kernel: KernelTimestamps,
    /// the node's clock as the kernel would stamp a packet: (unix seconds, nanoseconds)
    kernel_clock: Option<Box<dyn Fn() -> (i64, u32)>>,
    last_consumed_ts: Option<(i64, u32)>,
    /// connect_address fails while this is set (simulated "network unreachable at socket setup")
    refuse_connect: bool,
}

thread_local! {
    static HUB: RefCell<Hub> = RefCell::new(Hub::default());
}

/// Start of a run: forget everything; `notify` is poked whenever a task sends a datagram,
/// `consumed` whenever a task takes a delivered datagram out of its socket.
pub fn hub_reset(notify: std::sync::Arc<tokio::sync::Notify>, consumed: std::sync::Arc<tokio::sync::Notify>) {
    HUB.with(|h| {
        *h.borrow_mut() = Hub {
            notify: Some(notify),
            consumed: Some(consumed),
            ..Hub::default()
        }
    });
}

/// End of a run: drop all channel ends held by the hub.
pub fn hub_clear() {
    HUB.with(|h| *h.borrow_mut() = Hub::default());
}

/// Datagrams sent by source tasks since the last call.
pub fn hub_take_outbox() -> Vec<Outbound> {
    HUB.with(|h| std::mem::take(&mut h.borrow_mut().outbox))
}

/// The socket currently connected to `peer` (the newest one), if any.
pub fn hub_socket_for(peer: SocketAddr) -> Option<u64> {
    HUB.with(|h| h.borrow().open.iter().rev().find(|(_, (p, _))| *p == peer).map(|(id, _)| *id))
}

/// Deliver a datagram to an open socket; false if that socket is closed (the datagram vanishes,
/// as on a real host where the ephemeral port is gone).
pub fn hub_deliver(socket: u64, bytes: Vec<u8>) -> bool {
    HUB.with(|h| match h.borrow().open.get(&socket) {
        Some((_, tx)) => tx.send(bytes).is_ok(),
        None => false,
    })
}

/// Sequence number of the most recent datagram consumption (0 = none yet); compare with
/// `Outbound::seq` to order a task's sends relative to it.
pub fn hub_last_consumed_seq() -> u64 {
    HUB.with(|h| h.borrow().last_consumed_seq)
}

/// Install the simulated kernel's packet timestamping: `clock` returns the node's clock as
/// (unix seconds, nanoseconds); the task then converts it with the REAL `convert_net_timestamp`.
pub fn hub_set_kernel_timestamps(mode: KernelTimestamps, clock: Box<dyn Fn() -> (i64, u32)>) {
    HUB.with(|h| {
        let mut h = h.borrow_mut();
        h.kernel = mode;
        h.kernel_clock = Some(clock);
    });
}

/// The kernel receive timestamp handed to the task with the most recently consumed datagram.
pub fn hub_last_consumed_ts() -> Option<(i64, u32)> {
    HUB.with(|h| h.borrow().last_consumed_ts)
}

fn stamp(mode: InterfaceTimestampMode, ts: Option<(i64, u32)>) -> TimestampData {
    TimestampData {
        timestamp_mode: if ts.is_some() { mode } else { InterfaceTimestampMode::None },
        hardware: None,
        software: ts.map(|(seconds, nanos)| Timestamp { seconds, nanos }),
    }
}

/// Number of sends and consumptions performed by the tasks so far.
pub fn hub_seq() -> u64 {
    HUB.with(|h| h.borrow().seq)
}

pub fn hub_refuse_connect(refuse: bool) {
    HUB.with(|h| h.borrow_mut().refuse_connect = refuse);
}

pub struct Socket<A, S> {
    id: u64,
    peer: Option<SocketAddr>,
    rx: tokio::sync::mpsc::UnboundedReceiver<Vec<u8>>,
    _p: PhantomData<(A, S)>,
}

impl<A, S> Drop for Socket<A, S> {
    fn drop(&mut self) {
        let id = self.id;
        let _ = HUB.try_with(|h| {
            if let Ok(mut h) = h.try_borrow_mut() {
                h.open.remove(&id);
            }
        });
    }
}

fn open_socket<S>(peer: Option<SocketAddr>) -> std::io::Result<Socket<SocketAddr, S>> {
    HUB.with(|h| {
        let mut h = h.borrow_mut();
        if h.refuse_connect {
            return Err(std::io::Error::from_raw_os_error(libc::ENETUNREACH));
        }
        let (tx, rx) = tokio::sync::mpsc::unbounded_channel();
        h.next_socket += 1;
        let id = h.next_socket;
        if let Some(p) = peer {
            h.open.insert(id, (p, tx));
        }
        Ok(Socket {
            id,
            peer,
            rx,
            _p: PhantomData,
        })
    })
}

pub fn connect_address(addr: SocketAddr, _timestamping: GeneralTimestampMode) -> std::io::Result<Socket<SocketAddr, Connected>> {
    open_socket(Some(addr))
}

pub fn open_interface_udp(
    _interface: timestamped_socket::interface::InterfaceName,
    _port: u16,
    _timestamping: InterfaceTimestampMode,
    _bind_phc: Option<u32>,
) -> std::io::Result<Socket<SocketAddr, Open>> {
    open_socket(None)
}

impl Socket<SocketAddr, Open> {
    pub fn connect(self, addr: SocketAddr) -> std::io::Result<Socket<SocketAddr, Connected>> {
        // re-register under a fresh id as a connected socket
        drop(self);
        open_socket(Some(addr))
    }
}

impl Socket<SocketAddr, Connected> {
    pub async fn recv(&mut self, buf: &mut [u8]) -> std::io::Result<RecvResult<SocketAddr>> {
        match self.rx.recv().await {
            Some(bytes) => {
                let ts = HUB.with(|h| {
                    let mut h = h.borrow_mut();
                    h.seq += 1;
                    h.last_consumed_seq = h.seq;
                    let ts = match (h.kernel, &h.kernel_clock) {
                        (KernelTimestamps::Recv | KernelTimestamps::All, Some(clock)) => Some(clock()),
                        _ => None,
                    };
                    h.last_consumed_ts = ts;
                    if let Some(n) = &h.consumed {
                        n.notify_one();
                    }
                    ts
                });
                // like a real datagram socket: the datagram is truncated to the buffer
                let n = bytes.len().min(buf.len());
                buf[..n].copy_from_slice(&bytes[..n]);
                let peer = self.peer.expect("connected socket has a peer");
                Ok(RecvResult {
                    bytes_read: n,
                    remote_addr: peer,
                    local_addr: peer,
                    // without a kernel timestamp the task substitutes clock.now(), which the simulator owns
                    timestamp_data: stamp(InterfaceTimestampMode::SoftwareRecv, ts),
                })
            }
            None => std::future::pending().await,
        }
    }

    pub async fn send(&mut self, buf: &[u8]) -> std::io::Result<TimestampData> {
        let ts = HUB.with(|h| {
            let mut h = h.borrow_mut();
            h.seq += 1;
            let seq = h.seq;
            let kernel_ts = match (h.kernel, &h.kernel_clock) {
                (KernelTimestamps::All, Some(clock)) => Some(clock()),
                _ => None,
            };
            h.outbox.push(Outbound {
                socket: self.id,
                peer: self.peer.expect("connected socket has a peer"),
                bytes: buf.to_vec(),
                at: tokio::time::Instant::now(),
                seq,
                kernel_ts,
            });
            if let Some(n) = &h.notify {
                n.notify_one();
            }
            kernel_ts
        });
        Ok(stamp(InterfaceTimestampMode::SoftwareAll, ts))
    }
}

/// Spawn the REAL `SourceTask` (tokio::spawn inside) for `source`.
#[allow(clippy::too_many_arguments)]
pub fn spawn_source_task<C, Controller>(
    index: ntp_proto::ClockId,
    name: String,
    source_addr: SocketAddr,
    clock: C,
    channels: SourceChannels,
    source: ntp_proto::NtpSource<Controller>,
    initial_actions: ntp_proto::NtpSourceActionIterator,
) -> tokio::task::JoinHandle<()>
where
    C: 'static + ntp_proto::NtpClock + Send + Sync,
    Controller: ntp_proto::SourceController,
{
    super::super::ntp_source::SourceTask::spawn(
        index,
        name,
        source_addr,
        None,
        clock,
        super::super::config::TimestampMode::Software,
        channels,
        source,
        initial_actions,
    )
}
