//! ntpd facade fragment "keys" (owned by world w5): re-exports of the key
//! provider plus the simulated disk ("simfs") and the simulator-released park
//! that replace `std::fs::{File, OpenOptions}` and `std::thread::sleep` in
//! `ntpd/src/daemon/nts_key_provider.rs` under the verif cfg (hook H10).
//!
//! No dependency on simkit: the world mounts a [`Disk`] under an id, the code
//! under test reaches it through paths of the form `/verif-simfs/<id>/<file>`.
//! The registry is process-global (not thread-local) because the provider's
//! rotation loop runs in tokio's blocking pool, i.e. on another OS thread than
//! the simulated run; ids are unique per run, so parallel runs never share a
//! disk. Every fault decision is made beforehand by the world (the [`Plan`]),
//! every operation is recorded in an op log that the world drains and puts
//! into the run's event log, and the other thread only ever runs while the
//! simulator thread waits for it (strict hand-over through [`Disk::release`] /
//! [`Disk::wait_parked`]), so the schedule stays a function of the seed.

use std::collections::BTreeMap;
use std::io;
use std::sync::{Arc, Condvar, Mutex};
use std::time::Duration;

pub use super::super::config::KeysetConfig;
pub use super::super::nts_key_provider::spawn as spawn_key_provider;

pub const ROOT: &str = "/verif-simfs/";

#[derive(Clone, Debug, PartialEq, Eq)]
pub struct SimFile {
    pub data: Vec<u8>,
    pub mode: u32,
}

/// What one `write` call does (consumed in order; exhausted script = `Full`).
#[derive(Clone, Copy, Debug, PartialEq, Eq)]
pub enum WriteStep {
    Full,
    /// accept only this many bytes (at least 1, less than offered)
    Short(usize),
    /// fail once with `ErrorKind::Interrupted` (nothing written)
    Eintr,
    /// fail with ENOSPC (nothing written)
    Enospc,
    /// fail with EIO (nothing written)
    Eio,
}

/// What one `read` call does (consumed in order; exhausted script = `Full`).
#[derive(Clone, Copy, Debug, PartialEq, Eq)]
pub enum ReadStep {
    Full,
    Short(usize),
    Eintr,
    Eio,
}

#[derive(Clone, Copy, Debug, PartialEq, Eq)]
pub enum OpenFault {
    NotFound,
    PermissionDenied,
}

/// Faults the world planned for the operations to come.
#[derive(Clone, Debug, Default)]
pub struct Plan {
    /// the process dies instead of performing the next open for writing
    pub crash_before_open: bool,
    /// the process dies once this many bytes were accepted after the next open
    /// for writing (0 = right after the open; may cut inside one write)
    pub crash_after_bytes: Option<u64>,
    pub write_script: Vec<WriteStep>,
    pub read_script: Vec<ReadStep>,
    /// the next open for writing fails with this error
    pub open_write_fault: Option<OpenFault>,
}

#[derive(Clone, Debug, PartialEq, Eq)]
pub enum Op {
    OpenRead { file: String, found: bool, len: usize },
    OpenWrite { file: String, create: bool, truncate: bool, mode: Option<u32>, created: bool, old_len: usize, err: Option<&'static str> },
    Write { file: String, offered: usize, accepted: usize, err: Option<&'static str> },
    Read { file: String, asked: usize, got: usize, err: Option<&'static str> },
    Close { file: String, writable: bool },
    Crash { file: String, bytes_after_open: u64 },
    /// an operation attempted by a process that is already dead (no effect)
    Zombie { what: &'static str },
    Park { zero: bool },
}

#[derive(Default)]
struct Inner {
    files: BTreeMap<String, SimFile>,
    ops: Vec<Op>,
    plan: Plan,
    write_pos: usize,
    read_pos: usize,
    /// armed by the truncating open when `plan.crash_after_bytes` is set
    crash_countdown: Option<u64>,
    bytes_after_open: u64,
    frozen: bool,
    zombie_ops: u64,
    parked: bool,
    parks: u64,
    releases: u64,
    last_park: Option<Duration>,
    on_release: Option<Arc<dyn Fn(u64) + Send + Sync>>,
}

pub struct Disk {
    id: String,
    inner: Mutex<Inner>,
    cv: Condvar,
}

static REGISTRY: Mutex<BTreeMap<String, Arc<Disk>>> = Mutex::new(BTreeMap::new());

thread_local! {
    /// disk touched last by this thread (tells `sleep` whose park this is)
    static LAST_DISK: std::cell::RefCell<Option<Arc<Disk>>> = const { std::cell::RefCell::new(None) };
}

/// Create and register a fresh disk under `id`.
pub fn mount(id: &str) -> Arc<Disk> {
    let d = Arc::new(Disk {
        id: id.to_string(),
        inner: Mutex::new(Inner::default()),
        cv: Condvar::new(),
    });
    REGISTRY.lock().unwrap().insert(id.to_string(), d.clone());
    d
}

pub fn unmount(id: &str) {
    REGISTRY.lock().unwrap().remove(id);
    LAST_DISK.with(|l| *l.borrow_mut() = None);
}

fn resolve(path: &str) -> Option<(Arc<Disk>, String)> {
    let rest = path.strip_prefix(ROOT)?;
    let (id, file) = rest.split_once('/')?;
    let d = REGISTRY.lock().unwrap().get(id).cloned()?;
    LAST_DISK.with(|l| *l.borrow_mut() = Some(d.clone()));
    Some((d, file.to_string()))
}

fn errno(kind: &'static str) -> io::Error {
    match kind {
        "ENOSPC" => io::Error::from_raw_os_error(libc::ENOSPC),
        "EIO" => io::Error::from_raw_os_error(libc::EIO),
        "EINTR" => io::Error::from(io::ErrorKind::Interrupted),
        "ENOENT" => io::Error::from(io::ErrorKind::NotFound),
        "EACCES" => io::Error::from(io::ErrorKind::PermissionDenied),
        _ => io::Error::other(kind),
    }
}

impl Disk {
    pub fn path(&self, file: &str) -> String {
        format!("{ROOT}{}/{file}", self.id)
    }

    pub fn put_file(&self, file: &str, data: Vec<u8>, mode: u32) {
        self.inner.lock().unwrap().files.insert(file.to_string(), SimFile { data, mode });
    }

    pub fn remove_file(&self, file: &str) {
        self.inner.lock().unwrap().files.remove(file);
    }

    pub fn file(&self, file: &str) -> Option<SimFile> {
        self.inner.lock().unwrap().files.get(file).cloned()
    }

    /// Install the fault plan for the operations to come (scripts restart at 0).
    pub fn set_plan(&self, plan: Plan) {
        let mut i = self.inner.lock().unwrap();
        i.plan = plan;
        i.write_pos = 0;
        i.read_pos = 0;
        i.crash_countdown = None;
    }

    pub fn take_ops(&self) -> Vec<Op> {
        std::mem::take(&mut self.inner.lock().unwrap().ops)
    }

    /// The process using this disk is dead: every further operation fails
    /// without effect (recorded as `Op::Zombie`).
    pub fn freeze(&self) {
        self.inner.lock().unwrap().frozen = true;
    }

    pub fn frozen(&self) -> bool {
        self.inner.lock().unwrap().frozen
    }

    /// A new process starts: operations work again, no plan, counters reset.
    pub fn thaw(&self) {
        let mut i = self.inner.lock().unwrap();
        i.frozen = false;
        i.zombie_ops = 0;
        i.plan = Plan::default();
        i.write_pos = 0;
        i.read_pos = 0;
        i.crash_countdown = None;
        i.parked = false;
    }

    /// Run `f(release_number)` on the parked thread right after each release
    /// (the world uses it to seed that thread's `rand` shim).
    pub fn set_on_release(&self, f: Arc<dyn Fn(u64) + Send + Sync>) {
        self.inner.lock().unwrap().on_release = Some(f);
    }

    /// Block until the code under test sits in its rotation sleep. Returns the
    /// requested sleep, or None on (real-time) timeout = harness trouble.
    pub fn wait_parked(&self, real_timeout: Duration) -> Option<Duration> {
        let mut i = self.inner.lock().unwrap();
        let deadline = std::time::Instant::now() + real_timeout;
        while !i.parked {
            let left = deadline.checked_duration_since(std::time::Instant::now())?;
            let (g, _) = self.cv.wait_timeout(i, left).unwrap();
            i = g;
        }
        i.last_park
    }

    pub fn is_parked(&self) -> bool {
        self.inner.lock().unwrap().parked
    }

    /// Let the parked rotation loop continue ("the interval elapsed").
    pub fn release(&self) {
        let mut i = self.inner.lock().unwrap();
        i.parked = false;
        i.releases += 1;
        self.cv.notify_all();
    }

    /// Block until a dead process attempted `n` operations (used to wait for a
    /// zombie rotation loop to run into the frozen disk and exit).
    pub fn wait_zombie_ops(&self, n: u64, real_timeout: Duration) -> bool {
        let mut i = self.inner.lock().unwrap();
        let deadline = std::time::Instant::now() + real_timeout;
        while i.zombie_ops < n {
            let Some(left) = deadline.checked_duration_since(std::time::Instant::now()) else {
                return false;
            };
            let (g, _) = self.cv.wait_timeout(i, left).unwrap();
            i = g;
        }
        true
    }

    fn zombie(&self, i: &mut Inner, what: &'static str) -> io::Error {
        i.zombie_ops += 1;
        i.ops.push(Op::Zombie { what });
        self.cv.notify_all();
        io::Error::other("verif: process is dead")
    }
}

/// Replacement for `std::thread::sleep` in the rotation loop: park until the
/// simulator releases this thread.
pub fn sleep(d: Duration) {
    let Some(disk) = LAST_DISK.with(|l| l.borrow().clone()) else {
        // not under the simulated disk: behave like the real thing
        std::thread::sleep(d);
        return;
    };
    let (cb, n) = {
        let mut i = disk.inner.lock().unwrap();
        i.parked = true;
        i.parks += 1;
        i.last_park = Some(d);
        i.ops.push(Op::Park { zero: d.is_zero() });
        let target = i.parks;
        disk.cv.notify_all();
        while i.releases < target {
            i = disk.cv.wait(i).unwrap();
        }
        (i.on_release.clone(), i.releases)
    };
    if let Some(cb) = cb {
        cb(n);
    }
}

/// Stand-in for `std::fs::File` (read side: a snapshot taken at open; write
/// side: writes go to the disk's as-written contents immediately).
pub struct File {
    disk: Arc<Disk>,
    name: String,
    pos: usize,
    snapshot: Vec<u8>,
    writable: bool,
}

impl File {
    pub fn open(path: impl AsRef<std::path::Path>) -> io::Result<File> {
        let p = path.as_ref().to_string_lossy().to_string();
        let Some((disk, name)) = resolve(&p) else {
            return Err(errno("ENOENT"));
        };
        let snapshot = {
            let mut i = disk.inner.lock().unwrap();
            if i.frozen {
                return Err(disk.zombie(&mut i, "open-read"));
            }
            let found = i.files.get(&name).map(|f| f.data.clone());
            i.ops.push(Op::OpenRead { file: name.clone(), found: found.is_some(), len: found.as_ref().map(|d| d.len()).unwrap_or(0) });
            match found {
                Some(d) => d,
                None => return Err(errno("ENOENT")),
            }
        };
        Ok(File { disk, name, pos: 0, snapshot, writable: false })
    }
}

impl io::Read for File {
    fn read(&mut self, buf: &mut [u8]) -> io::Result<usize> {
        let mut i = self.disk.inner.lock().unwrap();
        if i.frozen {
            return Err(self.disk.zombie(&mut i, "read"));
        }
        let step = i.plan.read_script.get(i.read_pos).copied().unwrap_or(ReadStep::Full);
        i.read_pos += 1;
        let avail = self.snapshot.len() - self.pos;
        let mut n = avail.min(buf.len());
        let mut err = None;
        match step {
            ReadStep::Full => {}
            ReadStep::Short(k) => {
                if n > 1 {
                    n = k.clamp(1, n - 1);
                }
            }
            ReadStep::Eintr => err = Some("EINTR"),
            ReadStep::Eio => err = Some("EIO"),
        }
        if let Some(e) = err {
            i.ops.push(Op::Read { file: self.name.clone(), asked: buf.len(), got: 0, err: Some(e) });
            return Err(errno(e));
        }
        buf[..n].copy_from_slice(&self.snapshot[self.pos..self.pos + n]);
        self.pos += n;
        i.ops.push(Op::Read { file: self.name.clone(), asked: buf.len(), got: n, err: None });
        Ok(n)
    }
}

impl io::Write for File {
    fn write(&mut self, buf: &[u8]) -> io::Result<usize> {
        let mut i = self.disk.inner.lock().unwrap();
        if i.frozen {
            return Err(self.disk.zombie(&mut i, "write"));
        }
        if !self.writable {
            return Err(io::Error::from_raw_os_error(libc::EBADF));
        }
        if buf.is_empty() {
            return Ok(0);
        }
        // a pending crash point that is already reached (e.g. 0 bytes) fires first
        if i.crash_countdown == Some(0) {
            i.frozen = true;
            let b = i.bytes_after_open;
            i.ops.push(Op::Crash { file: self.name.clone(), bytes_after_open: b });
            return Err(io::Error::other("verif: simulated crash"));
        }
        let step = i.plan.write_script.get(i.write_pos).copied().unwrap_or(WriteStep::Full);
        i.write_pos += 1;
        let mut n = buf.len();
        let mut err = None;
        match step {
            WriteStep::Full => {}
            WriteStep::Short(k) => {
                if n > 1 {
                    n = k.clamp(1, n - 1);
                }
            }
            WriteStep::Eintr => err = Some("EINTR"),
            WriteStep::Enospc => err = Some("ENOSPC"),
            WriteStep::Eio => err = Some("EIO"),
        }
        if let Some(e) = err {
            i.ops.push(Op::Write { file: self.name.clone(), offered: buf.len(), accepted: 0, err: Some(e) });
            return Err(errno(e));
        }
        let mut crashed = false;
        if let Some(left) = i.crash_countdown {
            if (n as u64) >= left {
                n = left as usize;
                crashed = true;
            }
        }
        let pos = self.pos;
        {
            let f = i.files.entry(self.name.clone()).or_insert(SimFile { data: vec![], mode: 0 });
            if f.data.len() < pos + n {
                f.data.resize(pos + n, 0);
            }
            f.data[pos..pos + n].copy_from_slice(&buf[..n]);
        }
        self.pos += n;
        i.bytes_after_open += n as u64;
        if let Some(left) = i.crash_countdown.as_mut() {
            *left -= n as u64;
        }
        i.ops.push(Op::Write { file: self.name.clone(), offered: buf.len(), accepted: n, err: None });
        if crashed {
            i.frozen = true;
            let b = i.bytes_after_open;
            i.ops.push(Op::Crash { file: self.name.clone(), bytes_after_open: b });
            return Err(io::Error::other("verif: simulated crash"));
        }
        Ok(n)
    }

    fn flush(&mut self) -> io::Result<()> {
        Ok(())
    }
}

impl Drop for File {
    fn drop(&mut self) {
        let mut i = self.disk.inner.lock().unwrap();
        if !i.frozen {
            i.ops.push(Op::Close { file: self.name.clone(), writable: self.writable });
        }
    }
}

/// Stand-in for `std::fs::OpenOptions` + `std::os::unix::fs::OpenOptionsExt`.
#[derive(Clone, Debug, Default)]
pub struct OpenOptions {
    create: bool,
    truncate: bool,
    write: bool,
    read: bool,
    mode: Option<u32>,
}

impl OpenOptions {
    pub fn new() -> OpenOptions {
        OpenOptions::default()
    }
    pub fn create(&mut self, v: bool) -> &mut Self {
        self.create = v;
        self
    }
    pub fn truncate(&mut self, v: bool) -> &mut Self {
        self.truncate = v;
        self
    }
    pub fn write(&mut self, v: bool) -> &mut Self {
        self.write = v;
        self
    }
    pub fn read(&mut self, v: bool) -> &mut Self {
        self.read = v;
        self
    }
    pub fn mode(&mut self, m: u32) -> &mut Self {
        self.mode = Some(m);
        self
    }
    pub fn open(&self, path: impl AsRef<std::path::Path>) -> io::Result<File> {
        let p = path.as_ref().to_string_lossy().to_string();
        let Some((disk, name)) = resolve(&p) else {
            return Err(errno("ENOENT"));
        };
        let snapshot;
        {
            let mut i = disk.inner.lock().unwrap();
            if i.frozen {
                return Err(disk.zombie(&mut i, "open-write"));
            }
            if self.write && i.plan.crash_before_open {
                i.plan.crash_before_open = false;
                i.frozen = true;
                i.ops.push(Op::Crash { file: name.clone(), bytes_after_open: 0 });
                return Err(io::Error::other("verif: simulated crash"));
            }
            let exists = i.files.contains_key(&name);
            let old_len = i.files.get(&name).map(|f| f.data.len()).unwrap_or(0);
            let fault = if self.write { i.plan.open_write_fault.take() } else { None };
            let err = match fault {
                Some(OpenFault::NotFound) => Some("ENOENT"),
                Some(OpenFault::PermissionDenied) => Some("EACCES"),
                None if !exists && !self.create => Some("ENOENT"),
                None => None,
            };
            let created = err.is_none() && !exists;
            i.ops.push(Op::OpenWrite { file: name.clone(), create: self.create, truncate: self.truncate, mode: self.mode, created, old_len, err });
            if let Some(e) = err {
                return Err(errno(e));
            }
            if created {
                // like the OS: the mode argument only applies when the file is created
                // (default 0o666 as std does; umask is not modelled)
                i.files.insert(name.clone(), SimFile { data: vec![], mode: self.mode.unwrap_or(0o666) });
            }
            if self.write {
                if self.truncate {
                    i.files.get_mut(&name).unwrap().data.clear();
                }
                i.bytes_after_open = 0;
                i.crash_countdown = i.plan.crash_after_bytes.take();
            }
            snapshot = i.files.get(&name).map(|f| f.data.clone()).unwrap_or_default();
        }
        Ok(File { disk, name, pos: 0, snapshot, writable: self.write })
    }
}
