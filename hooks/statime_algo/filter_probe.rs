//! Read-only probe into `LinkFilter` (child module of `filter`, so it can see
//! the private link list and estimator state). Used by the simulator's oracles
//! for C42 / C43. Never mutates anything.

use std::vec::Vec;

use super::{LinkFilter, LinkState};
use crate::storage::KalmanStorageBase;
use crate::verif::{FilterLinkView, FilterView};

impl<Storage: KalmanStorageBase> LinkFilter<Storage> {
    /// Raw copy of the filter: estimator state plus every link's bookkeeping, in storage order.
    pub fn verif_view(&self) -> FilterView {
        let links: Vec<FilterLinkView> = self
            .links
            .iter()
            .map(|l| {
                let (tracked, decay_rate, noise) = match &l.link_state {
                    LinkState::Tracked {
                        link_noise_estimator,
                        decay_rate,
                    } => (true, *decay_rate, Some(link_noise_estimator.verif_view())),
                    LinkState::Untracked => (false, 0.0, None),
                };
                let delay_noise = l.link_state.delay_and_noise_estimate().ok().map(|e| (e.delay, e.noise));
                let ext = l.external_link_state.as_ref();
                FilterLinkView {
                    id: l.id,
                    active: l.active,
                    tracked,
                    decay_rate,
                    noise,
                    delay_noise,
                    external: ext.is_some(),
                    usable: ext.map(|e| e.usable).unwrap_or(false),
                    root_delay: ext.map(|e| e.root_delay).unwrap_or(0.0),
                    leap: ext.and_then(|e| e.leap_status),
                    last_offsets: ext.map(|e| e.last_offsets.as_ref().to_vec()).unwrap_or_default(),
                    last_offset_uncertainty: ext.map(|e| e.last_offset_uncertainty).unwrap_or(0.0),
                }
            })
            .collect();
        FilterView {
            est: self.estimation_state.verif_view(),
            links,
        }
    }
}
