//! In-crate facade for the /verif simulator (compiled only under
//! `--cfg pendulum_project_ntpd_rs_verif` with the crate's `std` feature;
//! included from statime-algo/src/lib.rs as `statime_algo::verif`).
//!
//! statime-algo keeps `LinkFilter`, `EstimatorState`, `LinkFilterConfig` and
//! `UncertainValue` in private modules; the simulator has to construct a
//! `LinkFilterConfig`, drive an `EstimatorState` directly (duplicate ids cannot be
//! produced through the controller API) and read the controller's private filter.
//! This module offers (a) plain-data *views* of the estimator / filter state that
//! the read-only probe child modules fill in, (b) thin by-value wrappers
//! (`Estimator`, `Filter`) that call the REAL consuming methods on a clone
//! (exactly the clone-then-replace pattern `KalmanController` uses), and
//! (c) read-only accessors on `KalmanController` / `KalmanLink`.
//! Nothing here mutates state owned by the code under test.

use std::vec::Vec;

use statime_base::{
    Clock, ClockId, DirectedLinkId, Direction, Duration, LeapStatus, LinkId, TAI, Timestamp,
};

use crate::{
    AlgoError, KalmanController, KalmanLink,
    estimator::{EstimatorState, UncertainValue},
    filter::{LinkFilter, LinkFilterConfig},
    storage::{KalmanStorage, KalmanStorageBase, StateMutex},
};

/// Position of one internal clock in the estimator's state vector.
#[derive(Clone, Debug, PartialEq)]
pub struct ClockSlot {
    pub id: ClockId,
    pub base_index: usize,
    pub wander: f64,
}

/// Position of one (active, tracked) link delay in the estimator's state vector.
#[derive(Clone, Debug, PartialEq)]
pub struct LinkSlot {
    pub id: LinkId,
    pub index: usize,
    pub decay_rate: f64,
}

/// Raw copy of an `EstimatorState`: time, state vector, covariance (row-major
/// `rows * rows`) and the index bookkeeping, in storage order.
#[derive(Clone, Debug, PartialEq)]
pub struct EstView {
    pub time: Timestamp<TAI>,
    pub rows: usize,
    /// (rows, cols) of the covariance matrix; equals (rows, rows) in a well-formed state
    pub cov_dim: (usize, usize),
    pub state: Vec<f64>,
    pub cov: Vec<f64>,
    pub clocks: Vec<ClockSlot>,
    pub externals: Vec<ClockId>,
    pub links: Vec<LinkSlot>,
}

/// Raw copy of a `LinkNoiseEstimator`.
#[derive(Clone, Debug, PartialEq)]
pub struct NoiseView {
    pub roundtrips: Vec<f64>,
    pub prev_half: Option<(Timestamp<TAI>, f64, Direction)>,
}

/// Raw copy of one `filter::LinkInfo`.
#[derive(Clone, Debug, PartialEq)]
pub struct FilterLinkView {
    pub id: LinkId,
    pub active: bool,
    pub tracked: bool,
    pub decay_rate: f64,
    /// `Some` for tracked links
    pub noise: Option<NoiseView>,
    /// (delay, noise) once available (always `Some((0,0))` for untracked links)
    pub delay_noise: Option<(f64, f64)>,
    pub external: bool,
    pub usable: bool,
    pub root_delay: f64,
    pub leap: Option<LeapStatus>,
    pub last_offsets: Vec<f64>,
    pub last_offset_uncertainty: f64,
}

/// Raw copy of a `LinkFilter`.
#[derive(Clone, Debug, PartialEq)]
pub struct FilterView {
    pub est: EstView,
    pub links: Vec<FilterLinkView>,
}

/// Build the (otherwise unnameable) filter configuration.
pub fn filter_config(
    select_offset_uncertainty_window: f64,
    select_link_uncertainty_window: f64,
    select_delay_uncertainty_window: f64,
    select_max_window_size: f64,
    minimum_agreeing_sources: usize,
) -> LinkFilterConfig {
    LinkFilterConfig {
        select_offset_uncertainty_window,
        select_link_uncertainty_window,
        select_delay_uncertainty_window,
        select_max_window_size,
        minimum_agreeing_sources,
    }
}

fn uv(v: (f64, f64)) -> UncertainValue {
    UncertainValue {
        value: v.0,
        uncertainty: v.1,
    }
}

/// By-value handle on a real `EstimatorState`. Every operation runs the real
/// consuming method on a clone and returns the new state (or the real error,
/// leaving `self` as the caller's intact copy).
pub struct Estimator<S: KalmanStorageBase>(EstimatorState<S>);

impl<S: KalmanStorageBase> Clone for Estimator<S> {
    fn clone(&self) -> Self {
        Estimator(self.0.clone())
    }
}

impl<S: KalmanStorageBase> Estimator<S> {
    pub fn empty(time: Timestamp<TAI>) -> Self {
        Estimator(EstimatorState::empty(time))
    }
    pub fn view(&self) -> EstView {
        self.0.verif_view()
    }
    pub fn progress_time(&self, t: Timestamp<TAI>) -> Result<Self, AlgoError> {
        self.0.clone().progress_time(t).map(Estimator)
    }
    pub fn absorb_frequency_steer(&self, id: ClockId, df: f64) -> Result<Self, AlgoError> {
        self.0.clone().absorb_frequency_steer(id, df).map(Estimator)
    }
    pub fn absorb_offset_change(&self, id: ClockId, d: f64) -> Result<Self, AlgoError> {
        self.0.clone().absorb_offset_change(id, d).map(Estimator)
    }
    pub fn absorb_system_clock_offset_change(&self, id: ClockId, d: Duration) -> Result<Self, AlgoError> {
        self.0.clone().absorb_system_clock_offset_change(id, d).map(Estimator)
    }
    pub fn measurement(&self, dir: DirectedLinkId, value: f64, uncertainty: f64, delay_link: bool) -> Result<Self, AlgoError> {
        self.0.clone().measurement(dir, uv((value, uncertainty)), delay_link).map(Estimator)
    }
    pub fn add_external_clock(&self, id: ClockId) -> Result<Self, AlgoError> {
        self.0.clone().add_external_clock(id).map(Estimator)
    }
    pub fn remove_external_clock(&self, id: ClockId) -> Result<Self, AlgoError> {
        self.0.clone().remove_external_clock(id).map(Estimator)
    }
    pub fn add_clock(&self, id: ClockId, offset: (f64, f64), frequency: (f64, f64), wander: f64) -> Result<Self, AlgoError> {
        self.0.clone().add_clock(id, uv(offset), uv(frequency), wander).map(Estimator)
    }
    pub fn remove_clock(&self, id: ClockId) -> Result<Self, AlgoError> {
        self.0.clone().remove_clock(id).map(Estimator)
    }
    pub fn add_link(&self, id: LinkId, delay: (f64, f64), decay_rate: f64) -> Result<Self, AlgoError> {
        self.0.clone().add_link(id, uv(delay), decay_rate).map(Estimator)
    }
    pub fn remove_link(&self, id: LinkId) -> Result<Self, AlgoError> {
        self.0.clone().remove_link(id).map(Estimator)
    }
    /// The estimator's own offset query: (value, uncertainty).
    pub fn clock_offset(&self, id: ClockId) -> Result<(f64, f64), AlgoError> {
        self.0.clock_offset(id).map(|u| (u.value, u.uncertainty))
    }
    /// The estimator's own frequency query: (value, uncertainty).
    pub fn clock_frequency(&self, id: ClockId) -> Result<(f64, f64), AlgoError> {
        self.0.clock_frequency(id).map(|u| (u.value, u.uncertainty))
    }
}

/// By-value handle on a real `LinkFilter` (a clone of the controller's filter).
pub struct Filter<S: KalmanStorageBase>(LinkFilter<S>);

impl<S: KalmanStorageBase> Clone for Filter<S> {
    fn clone(&self) -> Self {
        Filter(self.0.clone())
    }
}

impl<S: KalmanStorageBase> Filter<S> {
    pub fn view(&self) -> FilterView {
        self.0.verif_view()
    }
    pub fn progress_time(&self, t: Timestamp<TAI>) -> Result<Self, AlgoError> {
        self.0.clone().progress_time(t).map(Filter)
    }
    pub fn measurement(&self, config: &LinkFilterConfig, link: LinkId, direction: Direction, value: f64, uncertainty: f64) -> Result<Self, AlgoError> {
        self.0
            .clone()
            .measurement(config, DirectedLinkId::new(link, direction), uv((value, uncertainty)))
            .map(Filter)
    }
    /// The filter's own offset query: (value, uncertainty).
    pub fn clock_offset(&self, id: ClockId) -> Result<(f64, f64), AlgoError> {
        self.0.clock_offset(id).map(|u| (u.value, u.uncertainty))
    }
    /// The filter's own frequency query: (value, uncertainty).
    pub fn clock_frequency(&self, id: ClockId) -> Result<(f64, f64), AlgoError> {
        self.0.clock_frequency(id).map(|u| (u.value, u.uncertainty))
    }
}

/// Read-only accessors on the controller (this module is a child of the crate
/// root, so it sees the private `state` field).
impl<Storage: KalmanStorage<C>, C: Clock> KalmanController<Storage, C> {
    /// Raw copy of the controller's private filter.
    pub fn verif_filter_view(&self) -> FilterView {
        self.state.with_ref(|s| s.filter.verif_view())
    }
    /// Clone of the controller's private filter (the real type, by value).
    pub fn verif_filter(&self) -> Filter<Storage> {
        self.state.with_ref(|s| Filter(s.filter.clone()))
    }
    /// Ids of the steered clocks in the controller's own list (system clock first).
    pub fn verif_clock_ids(&self) -> Vec<ClockId> {
        self.state.with_ref(|s| s.clocks.iter().map(|c| c.id).collect())
    }
    /// Clone of the filter configuration the controller was created with.
    pub fn verif_filter_config(&self) -> LinkFilterConfig {
        self.state.with_ref(|s| s.filter_config.clone())
    }
    /// The controller's cached root delay in seconds.
    pub fn verif_root_delay(&self) -> f64 {
        self.state.with_ref(|s| s.root_delay.as_seconds())
    }
}

impl<ControllerRef: AsRef<KalmanController<Storage, C>>, Storage: KalmanStorage<C>, C: Clock>
    KalmanLink<ControllerRef, Storage, C>
{
    /// The id the filter knows this link under.
    pub fn verif_link_id(&self) -> LinkId {
        self.link_id
    }
}
