//! Read-only probe into `LinkNoiseEstimator` (child module of `link_noise`).

use super::LinkNoiseEstimator;
use crate::verif::NoiseView;

impl LinkNoiseEstimator {
    /// Raw copy of the round-trip ring buffer and the pending half measurement.
    pub fn verif_view(&self) -> NoiseView {
        NoiseView {
            roundtrips: self.roundtrip_delays.as_ref().to_vec(),
            prev_half: self.prev_measurement.map(|p| (p.time, p.offset, p.direction)),
        }
    }
}
