//! Read-only probe into `EstimatorState` (child module of `estimator`, so it can
//! see the private time / state / uncertainty / index bookkeeping). Used by the
//! simulator's oracles for C42 / C43. Never mutates anything.

use std::vec::Vec;

use super::EstimatorState;
use crate::storage::KalmanStorageBase;
use crate::verif::{ClockSlot, EstView, LinkSlot};

impl<Storage: KalmanStorageBase> EstimatorState<Storage> {
    /// Raw copy of the estimator state, in storage order.
    pub fn verif_view(&self) -> EstView {
        let rows = self.state.rows();
        let mut state = Vec::with_capacity(rows);
        for r in 0..rows {
            state.push(self.state[(r, 0)]);
        }
        let mut cov = Vec::with_capacity(rows * rows);
        // the covariance is (rows x rows) whenever the state vector has `rows` rows;
        // if the two ever disagree, report what is there without panicking
        let crow = self.uncertainty.rows();
        let ccol = self.uncertainty.cols();
        for r in 0..rows {
            for c in 0..rows {
                cov.push(if r < crow && c < ccol { self.uncertainty[(r, c)] } else { f64::NAN });
            }
        }
        EstView {
            time: self.time,
            rows,
            cov_dim: (crow, ccol),
            state,
            cov,
            clocks: self
                .clock_info
                .iter()
                .map(|c| ClockSlot {
                    id: c.id,
                    base_index: c.base_index,
                    wander: c.wander,
                })
                .collect(),
            externals: self.external_clocks.0.iter().copied().collect(),
            links: self
                .link_info
                .iter()
                .map(|l| LinkSlot {
                    id: l.id,
                    index: l.index,
                    decay_rate: l.decay_rate,
                })
                .collect(),
        }
    }
}
