#!/usr/bin/env python3
"""Print the prompt for a seeded-breakage sub-agent: property text + scratch worktree only (nothing from /verif)."""
import json, sys, subprocess, os
pid, n = sys.argv[1], sys.argv[2]
hint = sys.argv[3] if len(sys.argv) > 3 else ""
p = next(json.loads(l) for l in open('/verif/properties.jsonl') if json.loads(l)['id'] == pid)
wt = f"/tmp/seed-{pid}-{n}"
if not os.path.exists(wt):
    subprocess.check_call(["git", "-C", "/repo", "worktree", "add", "-q", "--detach", wt, "HEAD"])
os.makedirs(f"{wt}-out", exist_ok=True)
print(f"""You are testing how good a verification effort is by planting a realistic bug. Work ONLY inside the git worktree {wt} (a checkout of the Rust project pendulum-project/ntpd-rs, an NTP/NTS daemon) and write your deliverables to {wt}-out/. Do not read or write anything under /verif or /repo, and do not look at other /tmp directories. The sandbox is offline: use `cargo ... --offline`; the worktree builds into its own `target/` directory.

PROPERTY {p['id']}: {p['title']}
Statement: {p['statement']}
Quantified over: {p['quantifier']['text']}
Why the existing tests cannot settle it: {p['why_tests_cant']}
Code it is anchored in: {', '.join(p['anchors']['files'])}

TASK: make ONE small, realistic change to the project's non-test source code (the kind of slip a maintainer could make in a refactor or an optimisation: an off-by-one, a dropped or weakened check, a wrong field, a reordered statement, a stale value, state not reset, an early return, two sites that each look fine alone) such that
 1. the project still compiles and the ENTIRE existing test suite still passes unedited: run `flock /tmp/suite.lock cargo test --workspace --no-fail-fast --offline 2>&1 | grep -E "^test result|FAILED|failed" | tail -40` in the worktree (ALWAYS through that `flock`: other jobs run the same suite on this machine and its tests bind fixed network ports, so two suites must never overlap) and confirm there are no failures other than the two that also fail on the unmodified checkout in this sandbox (`ntpd daemon::spawn::csptp::tests::creates_a_source` and `recreates_a_source`, because localhost resolves to IPv4 only). Do not edit, delete or ignore any existing test. The source contains a few `#[cfg(pendulum_project_ntpd_rs_verif)]` lines that include files from /verif: they are inert instrumentation hooks; leave them alone and do not open those files;
 2. the property above is violated by the changed code;
 3. the violation needs something SPECIFIC to manifest — a particular interleaving, a fault or crash at a particular point, a multi-step sequence of operations, an unusual input or configuration, or two cooperating sites — rather than something ordinary use or a trivial smoke test would expose at once. Avoid changes that break every run.{(' ' + hint) if hint else ''}
Then write a DEMONSTRATION: a new test (a new `#[test]`/`#[tokio::test]` function or a small new test file; it may live inside the crate so it can reach private items) that FAILS with your change and PASSES without it. Verify both directions yourself (apply/unapply your source patch with `git apply` / `git apply -R`; do NOT use `git stash`, `git commit`, `git checkout <branch>` or any git command that changes refs).

DELIVERABLES in {wt}-out/:
 - patch.diff : `git diff` of the source change ONLY (no test), relative to the worktree root, applying cleanly to the original checkout with `git apply`;
 - demo.diff  : `git diff` adding the demonstration test ONLY;
 - meta.json  : {{"property": "{p['id']}", "summary": "...one paragraph: what was changed and why it breaks the property...", "needs": "...what specific circumstances are needed for the violation to manifest...", "demo_cmd": "...exact cargo test command that runs the demonstration...", "suite_result": "...the test-suite summary line(s) you observed with the change applied..."}}
Leave the worktree with BOTH diffs applied. Keep shell output short (pipe through tail/grep). Your final message: a 10-line summary of the change, the demonstration, and the commands you ran with their results.""")
