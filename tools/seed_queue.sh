#!/bin/bash
# Background worker: evaluates every delivered seeded change exactly once (sequentially).
while true; do
  for out in /tmp/seed-*-out; do
    [ -f "$out/meta.json" ] && [ -f "$out/patch.diff" ] && [ -f "$out/demo.diff" ] || continue
    base=$(basename "$out" -out); idn=${base#seed-}; id=${idn%-*}; n=${idn##*-}
    [ -f "/verif/seeded/$idn/check.log" ] && continue
    # agent must have finished: meta.json older than 3 minutes
    [ $(( $(date +%s) - $(stat -c %Y "$out/meta.json") )) -gt 1200 ] || continue
    echo "$(date +%T) evaluating $idn" >> /tmp/seed_queue.log
    /verif/tools/eval_seed.sh "$id" "$n" seedq >> /tmp/seed_queue.log 2>&1
  done
  sleep 60
done
