#!/bin/bash
# tools/eval_seed.sh <ID> <n> [tag]: confirm a seeded change (suite + demo both ways), then run the property's
# quick check against it in a scratch copy (mutcheck), and record everything in /verif/seeded/<ID>-<n>/.
set -u
id="$1"; n="$2"; tag="${3:-seed}"
/verif/tools/confirm_seed.sh "$id" "$n" > /tmp/eval-$id-$n.confirm 2>&1
dst="/verif/seeded/$id-$n"
out=$(/verif/tools/mutcheck.sh "$tag" "$id" "$dst/patch.diff" 2>&1); rc=$?
echo "$out" > "$dst/check.log"
python3 - "$dst" "$rc" <<'PY'
import json,sys
dst,rc=sys.argv[1],int(sys.argv[2])
m=json.load(open(f"{dst}/meta.json"))
log=open(f"{dst}/check.log").read()
m["checks_run"]=f"tools/confirm_seed.sh + tools/mutcheck.sh <tag> {m.get('property')} {dst}/patch.diff (quick tier)"
m["detected_by_quick_check"]= (rc==1)
m["check_exit_code"]=rc
m["check_output"]=[l[:300] for l in log.splitlines() if l.startswith(("VIOLATION","violation","runs=","OK","KNOWN","MUTANT","patch"))][:6]
json.dump(m,open(f"{dst}/meta.json","w"),indent=1)
print(dst, "rc=",rc, m["check_output"][-2:] if m["check_output"] else log[-300:])
PY
# free the disk: the worktree (with its multi-GB target dir) is no longer needed
git -C /repo worktree remove --force "/tmp/seed-$id-$n" 2>/dev/null; rm -rf "/tmp/seed-$id-$n"; git -C /repo worktree prune
