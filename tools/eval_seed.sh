#!/bin/bash
# tools/eval_seed.sh <ID> <n> [tag]: store a delivered seeded change under /verif/seeded/<ID>-<n>/, free the agent's
# worktree, and run the property's quick check against the change in a scratch copy (mutcheck).
# Confirmation of the suite/demo (tools/confirm_seed.sh) is a separate, later step on a shared worktree.
set -u
id="$1"; n="$2"; tag="${3:-seed}"
out="/tmp/seed-$id-$n-out"; dst="/verif/seeded/$id-$n"
mkdir -p "$dst"
if [ -d "$out" ]; then cp "$out/patch.diff" "$out/demo.diff" "$out/meta.json" "$dst/" || exit 2; fi
git -C /repo worktree remove --force "/tmp/seed-$id-$n" 2>/dev/null; rm -rf "/tmp/seed-$id-$n"; git -C /repo worktree prune
res=$(/verif/tools/mutcheck.sh "$tag" "$id" "$dst/patch.diff" 2>&1); rc=$?
echo "$res" > "$dst/check.log"
python3 - "$dst" "$rc" <<'PY'
import json,sys
dst,rc=sys.argv[1],int(sys.argv[2])
m=json.load(open(f"{dst}/meta.json"))
log=open(f"{dst}/check.log").read()
m["checks_run"]=f"tools/mutcheck.sh <tag> {m.get('property')} {dst}/patch.diff (quick tier, scratch copy of /repo HEAD + patch)"
m["detected_by_quick_check"]=(rc==1)
m["check_exit_code"]=rc
m["check_output"]=[l[:300] for l in log.splitlines() if l.startswith(("VIOLATION","violation","runs=","OK","KNOWN","MUTANT","patch"))][:6]
json.dump(m,open(f"{dst}/meta.json","w"),indent=1)
print(dst,"rc=",rc,(m["check_output"][-2:] if m["check_output"] else log[-300:]))
PY
