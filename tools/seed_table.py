#!/usr/bin/env python3
"""Markdown table of the seeded changes under /verif/seeded (for DESIGN.md §12.6)."""
import json,glob,os
rows=[]
for d in sorted(glob.glob('/verif/seeded/*-*')):
    try: m=json.load(open(d+'/meta.json'))
    except Exception: continue
    out=m.get('check_output') or []
    v=next((l for l in out if l.startswith('violation:')),'')
    clause=' '.join(v.split()[1:3]).rstrip(':') if v else ''
    runs=next((l.split()[0].replace('runs=','') for l in out if l.startswith('runs=')),'')
    rows.append((os.path.basename(d), (m.get('summary') or '')[:150].replace('\n',' ').replace('|','/'), 'yes' if m.get('confirmed') else ('pending' if 'confirmed' not in m else 'NO'), ('caught: '+clause+f' (after {runs} runs)') if m.get('detected_by_quick_check') else 'MISSED', m.get('strengthening','')))
print("| seed | change (abridged) | confirmed | quick check of its property | note |")
print("|------|-------------------|-----------|------------------------------|------|")
for r in rows: print("| "+" | ".join(r)+" |")
