#!/bin/bash
# Confirm every stored seeded change that has no confirmation yet (sequential, shared worktree). Loops until killed.
while true; do
  for d in /verif/seeded/*-*; do
    [ -f "$d/patch.diff" ] && [ -f "$d/demo.diff" ] && [ -f "$d/meta.json" ] || continue
    python3 -c "import json,sys; sys.exit(0 if 'confirmed' in json.load(open('$d/meta.json')) else 1)" && continue
    idn=$(basename "$d"); id=${idn%-*}; n=${idn##*-}
    echo "$(date +%T) confirming $idn" >> /tmp/confirm_all.log
    /verif/tools/confirm_seed.sh "$id" "$n" >> /tmp/confirm_all.log 2>&1 || { python3 - "$d" <<'PY'
import json,sys
d=sys.argv[1]; m=json.load(open(f"{d}/meta.json")); m.setdefault("confirmed", False); m.setdefault("confirmation", {"error":"confirm_seed.sh failed, see confirm.log"})
json.dump(m,open(f"{d}/meta.json","w"),indent=1)
PY
    }
  done
  sleep 120
done
