#!/usr/bin/env python3
"""Rewrite DESIGN.md section 12.6 (seeded changes) from /verif/seeded/*/meta.json."""
import json,glob,os,re,subprocess
rows=[];caught=0;missed=[];conf=0
for d in sorted(glob.glob('/verif/seeded/*-*')):
    try: m=json.load(open(d+'/meta.json'))
    except Exception: continue
    out=m.get('check_output') or []
    v=next((l for l in out if l.startswith('violation:')),'')
    clause=' '.join(v.split()[1:3]).rstrip(':') if v else ''
    runs=next((l.split()[0].replace('runs=','') for l in out if l.startswith('runs=')),'')
    det=m.get('detected_by_quick_check')
    caught+=bool(det); conf+=bool(m.get('confirmed'))
    if not det: missed.append(os.path.basename(d))
    summ=(m.get('summary') or '').replace('\n',' ').replace('|','/')
    summ=re.sub(r'/tmp/seed-[A-Z0-9-]+/','',summ)[:170]
    other=m.get('detected_by_other_check')
    cell=('`'+clause+'` after '+runs+' runs') if det else (('**not by its own check**; '+other) if other else '**missed**')
    rows.append(f"| {os.path.basename(d)} | {summ} | {'yes' if m.get('confirmed') else ('no' if 'confirmed' in m else 'pending')} | {cell} |")
text=f"""### 12.6 Seeded changes (realistic breakage planted by blind sub-agents)

Each change was written by a fresh sub-agent that saw only the property text and
its own scratch worktree of /repo (nothing from /verif), compiles, passes the
pinned suite, and comes with a demonstration test that fails with the change and
passes without it. `tools/confirm_seed.sh` re-confirmed that on a scratch
worktree (suite failures other than the demonstration are the two `ntpd …
spawn::csptp` tests that fail on the unmodified checkout here and load-flaky
socket-timestamp tests that pass when re-run alone); `tools/mutcheck.sh` ran the
property's **quick** check against /repo HEAD + the change in a scratch copy.
Everything is kept under `/verif/seeded/<id>-<n>/` (patch.diff, demo.diff,
meta.json with what it needs to manifest and what was run, check.log,
confirm.log). Round 2 (`-2`) agents were told the round-1 idea and had to use a
different mechanism (C16-2, C18-2, C35-2 were added in a later, short session under a
12-minute limit per agent).

Totals: {len(rows)} changes, {caught} detected by the quick check of their
property, {conf} re-confirmed by the coordinator so far{(', not detected by the check of their own property: ' + ', '.join(missed) + ' (C16-2 is detected by the check of C17, see below)') if missed else ''}.

Changes that were first missed and what was strengthened (each is detected now
unless listed as not detected above):

* C19-1, C17-1 (undersized cookie field inside the *encrypted* part of a valid NTS
  request): w1n and w1s request generators now put cookies/placeholders/uids/unknown
  fields of arbitrary length inside the ciphertext.
* C23-1 (NTPv5 field with unaligned inner lengths): w1n hostile-layout family for
  every inner-length-carrying field, fed straight to the decoder under all three
  key contexts.
* C26-1 (key ids after a rotation that drops several keys): w1n servers restart
  through the real store/load with a changed history length.
* C19-2 (failing authenticator followed by a valid one): w1n generates 2–4
  authenticator fields per packet in every valid/failing combination, both directions.
* C30-1 (empty id list in a fixed-key request): w3 corpus gained a systematic
  "well-framed, degenerate content" family.
* C30-2 (verdict depends on stream fragmentation): w3 clause
  `c30-verdict-independent-of-chunking`.
* C14-2 (ring index after over-delivery), C33-2 (measurement handed over before
  usability is revoked): w1x multi-round surplus-cookie histories under C14 and an
  order clause between `set_usable` and `handle_measurement`.
* C05-2 (kernel receive timestamps after the NTP era rollover): w1c real-task mode
  feeds kernel-style timestamps from post-rollover epochs through the real glue.
* C06-2 (filter moved backwards in time by a late frequency change): analysed and
  **not detected**: with the real wrappers the negative-variance state exists only
  between a frequency-change message and the periodic source's next measurement, which
  resets the filter (meddling detection), and the daemon reads estimates only after
  measurements or at poll timers, so no single-threaded interleaving reports it; the
  ordering variant needs preemption inside one poll, which the multiplexer does not
  explore (§10). W2 gained a common-mode server jump fault, a PPS scenario, observe()
  at poll time and source-side panic capture on the way.

* C16-2 (cookie size guard loosened by 4 bytes; round 3, session 2): **not detected by
  C16's check, detected by C17's check** after about 1400 runs (`c17-answer-needs-more-than-
  request-sized-buffer`, cause=other, "with a 4096-byte buffer the server answers Time in
  388 bytes, with the daemon's request-sized buffer the client saw Nothing"). C16 is
  stated at the daemon's request-sized buffer (its `observe_at`), and there the loosened
  guard cannot lengthen a sent datagram: `ServerTask::serve` hands `Server::handle` a
  buffer clamped to the request length, so the over-long answer fails to serialise and is
  dropped — which is exactly what C17 forbids. The author's demonstration calls
  `Server::handle` with a larger buffer (library level). The C16 oracle was left as it is:
  flagging the 4096-byte-buffer answer under C16 would also flag the unchanged tree for
  the short-unique-identifier defect that is already a C17 known finding, at an
  observation point the property does not name.

| seed | change (abridged from the author's summary) | confirmed | quick check of its property |
|------|---------------------------------------------|-----------|------------------------------|
""" + "\n".join(rows) + "\n"
p='/verif/DESIGN.md'; s=open(p).read()
if '### 12.6 Seeded changes' in s:
    s=s[:s.index('### 12.6 Seeded changes')]
s=s.rstrip('\n')+'\n\n'+text
open(p,'w').write(s)
print(len(rows),caught,conf,missed)
