#!/usr/bin/env python3
"""Generate /verif/MANIFEST.json from worlds.map (what is built) + props_meta.json (texts)."""
import json, os, subprocess
V = os.path.dirname(os.path.dirname(os.path.abspath(__file__)))
import glob
meta = {"_engines": {}}
for f in sorted(glob.glob(f"{V}/tools/meta.d/*.json")):
    d = json.load(open(f))
    meta["_engines"].update(d.pop("_engines", {}))
    meta.update(d)
built = {}
for f in sorted(glob.glob(f"{V}/worlds.d/*.map")):
    for line in open(f):
        if line.strip() and not line.startswith("#"):
            p, crate, binname, world = line.split()
            built[p] = (crate, binname, world)
hooks = []
try:
    out = subprocess.check_output(["git", "-C", "/repo", "log", "--format=%H %s"], text=True)
    hooks = [l.split()[0] for l in out.splitlines() if "verif hook" in l]
except Exception:
    pass
checks, na = [], []
props = [json.loads(l) for l in open(f"{V}/properties.jsonl")]
for p in props:
    pid = p["id"]
    m = meta.get(pid, {})
    if m.get("not_applicable"):
        na.append({"property_id": pid, "reason": m["not_applicable"]})
        continue
    if pid not in built:
        na.append({"property_id": pid, "reason": "no check is registered yet: " + m.get("pending", "the simulated world that decides it is not built at this commit (see DESIGN.md section 5)")})
        continue
    crate, binname, world = built[pid]
    checks.append({
        "property_id": pid,
        "quick_cmd": f"./check {pid} quick",
        "thorough_cmd": f"./check {pid} thorough",
        "evidence_file": f"/verif/evidence/{pid}.json",
        "replay_cmd_template": "./check replay {path}",
        "engine": world,
        "level_claimed": {
            "category": m.get("level", "exploration"),
            "text": m["text"],
            "design_ref": f"DESIGN.md section 5, {pid}",
        },
        "level_note": m["note"],
        "technique": m.get("technique", "deterministic simulation with fault injection: every fault point of the simulated run (crash prefix / stream cut offset and chunking / flipped bit position / delivered cookie length) enumerated completely over seeded scenario families of the real code, invariant monitors, replay files" if m.get("level") == "fault_enumeration" else "deterministic simulation with fault injection: seeded search over schedules and fault sequences, invariant monitors and history checks against small reference models, minimised replay files"),
    })
engines = {}
for pid, (crate, binname, world) in built.items():
    engines.setdefault(world, {"name": world, "path": f"/verif/sim/worlds/{crate}", "serves_properties": [], "kind_free_text": meta.get("_engines", {}).get(world, "simulated world")})
    engines[world]["serves_properties"].append(pid)
man = {
    "version": 1,
    "setup_cmd": "cd /verif/sim && CARGO_NET_OFFLINE=true cargo build --release --offline --workspace",
    "hooks": {
        "guard": "--cfg pendulum_project_ntpd_rs_verif",
        "enable": "checks build from /verif/sim, whose .cargo/config.toml sets rustflags --cfg pendulum_project_ntpd_rs_verif --cfg tokio_unstable; the repo crates are path dependencies, so /repo's working tree is rebuilt with hooks on; hook code lives in /verif/hooks and is pulled in by cfg-guarded #[path] include lines",
        "baseline_off_cmd": "cd /repo && cargo test --workspace --no-fail-fast --offline",
        "source_commits": hooks,
        "add_only": True,
    },
    "engines": list(engines.values()),
    "checks": checks,
    "not_applicable": na,
    "notes": "One technique family throughout: deterministic simulation with fault injection (DESIGN.md). ./check <id> quick|thorough ; ./check replay <file>. Exit 0 held / 1 VIOLATION / 2 harness error. Known findings: /verif/known_findings.json.",
}
json.dump(man, open(f"{V}/MANIFEST.json", "w"), indent=1)
print(f"{len(checks)} checks, {len(na)} not claimed")
