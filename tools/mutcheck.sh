#!/bin/bash
# Run a check against a MUTATED copy of /repo without touching /repo or /verif.
#   tools/mutcheck.sh <tag> <PROP> <patch.diff> [quick|thorough]   apply patch to a scratch worktree of /repo (HEAD),
#                                                 build a scratch copy of /verif/sim against it, run the check, undo the patch
#   tools/mutcheck.sh <tag> --clean               remove the scratch worktree, build output and all
# Scratch lives in /tmp/mut-<tag>/ {wt = worktree, sim = copy of /verif/sim with repo -> wt, verif = evidence/replays, tgt}.
# Exit code = the check's exit code (1 = the mutation was detected).
set -u
tag="${1:?tag}"; S="/tmp/mut-$tag"
if [ "${2:-}" = "--clean" ]; then
    git -C /repo worktree remove --force "$S/wt" 2>/dev/null
    rm -rf "$S"; git -C /repo worktree prune; exit 0
fi
prop="${2:?property}"; patch="$(readlink -f "${3:?patch file}")"; tier="${4:-quick}"
mkdir -p "$S/verif"
head=$(git -C /repo rev-parse HEAD)
if [ ! -d "$S/wt" ]; then git -C /repo worktree add -q --detach "$S/wt" "$head" || exit 2; fi
git -C "$S/wt" checkout -q -- . && git -C "$S/wt" checkout -q --detach "$head" || exit 2
rsync -a --delete --exclude target /verif/sim/ "$S/sim/" || exit 2
ln -sfn "$S/wt" "$S/repo"
cp /verif/known_findings.json "$S/verif/" 2>/dev/null
set -- $(cat /verif/worlds.d/*.map | awk -v p="$prop" '$1==p {print $2" "$3; exit}')
[ $# -eq 2 ] || { echo "no check registered for $prop" >&2; exit 2; }
crate="$1"; bin="$2"
if ! git -C "$S/wt" apply "$patch"; then echo "patch does not apply" >&2; exit 2; fi
cd "$S/sim" || exit 2
export CARGO_TARGET_DIR="$S/tgt" CARGO_NET_OFFLINE=true VERIF_DIR="$S/verif"
if ! cargo build --release --offline -p "$crate" >"$S/build.log" 2>&1; then
    echo "MUTANT DOES NOT BUILD (with hooks on):"; grep -E "^error" -A8 "$S/build.log" | head -40
    git -C "$S/wt" checkout -q -- .; exit 2
fi
"$S/tgt/release/$bin" check "$prop" "$tier" | grep -E "^(VIOLATION|KNOWN-FINDING|OK|violation|runs=)" | cut -c1-400
rc=${PIPESTATUS[0]}
git -C "$S/wt" checkout -q -- .
exit $rc
