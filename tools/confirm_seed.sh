#!/bin/bash
# tools/confirm_seed.sh <ID> <n>: confirm a stored seeded change on the shared scratch worktree /tmp/confirm-wt:
#  with patch: existing suite passes (apart from tests failing on the unmodified checkout too), demo FAILS;
#  without patch: demo PASSES. Writes /verif/seeded/<ID>-<n>/confirm.log and meta.json["confirmed"].
set -u
id="$1"; n="$2"; dst="/verif/seeded/$id-$n"; wt=/tmp/confirm-wt
[ -d "$wt" ] || git -C /repo worktree add -q --detach "$wt" HEAD || exit 2
cd "$wt" || exit 2
git checkout -q -- . && git clean -fdq -e target && git checkout -q --detach "$(git -C /repo rev-parse HEAD)" || exit 2
git apply "$dst/patch.diff" && git apply "$dst/demo.diff" || { echo "diffs do not apply to HEAD" > "$dst/confirm.log"; exit 3; }
demo=$(python3 -c "import json,re;print(re.split(r'\s+\(', json.load(open('$dst/meta.json'))['demo_cmd'])[0].strip())")
log="$dst/confirm.log"; : > "$log"
echo "## suite with patch (+demo) at $(git -C /repo rev-parse --short HEAD)" >> "$log"
flock /tmp/suite.lock timeout 1500 cargo test --workspace --no-fail-fast --offline 2>&1 | grep -E "^test result|^test .* FAILED" >> "$log"
echo "## demo with patch: $demo" >> "$log"
( eval "$demo" 2>&1 | grep -E "^test result|^test .*(FAILED|ok)$" ) >> "$log"
# load-flaky tests (10 ms socket timeouts, port binding): rerun every failing existing test alone, with the patch still applied
for t in $(grep -E "^test .* FAILED" "$log" | awk '{print $2}' | sort -u); do
  for i in 1 2 3; do
    if flock /tmp/suite.lock timeout 600 cargo test --workspace --offline "$t" 2>&1 | grep -qE "^test $t \.\.\. ok"; then echo "RERUN-OK $t" >> "$log"; break; fi
  done
done
git apply -R "$dst/patch.diff" || { echo "cannot unapply" >> "$log"; exit 2; }
echo "## demo without patch" >> "$log"
( eval "$demo" 2>&1 | grep -E "^test result|^test .*(FAILED|ok)$" ) >> "$log"
git checkout -q -- . ; git clean -fdq -e target
python3 - "$dst" <<'PY'
import json,sys,re
dst=sys.argv[1]; log=open(f"{dst}/confirm.log").read()
parts=log.split("## ")
suite=[p for p in parts if p.startswith("suite")][0]; withp=[p for p in parts if p.startswith("demo with patch")][0]; without=[p for p in parts if p.startswith("demo without")][0]
failed=set(re.findall(r"^test (\S+) \.\.\. FAILED",suite,re.M))
baseline={"daemon::spawn::csptp::tests::creates_a_source","daemon::spawn::csptp::tests::recreates_a_source","test::test_ipv4","test::test_ipv6"}
demo_failed=set(re.findall(r"^test (\S+) \.\.\. FAILED",withp,re.M))
rerun_ok=set(re.findall(r"^RERUN-OK (\S+)",log,re.M))
unexpected=failed-baseline-demo_failed-rerun_ok
ok = bool(demo_failed) and "FAILED" not in without and "passed" in without and not unexpected
m=json.load(open(f"{dst}/meta.json")); m["confirmed"]=ok
m["confirmation"]={"suite_failures_other_than_demo_and_sandbox_baseline":sorted(unexpected),"demo_fails_with_patch":bool(demo_failed),"demo_passes_without_patch":"FAILED" not in without and "passed" in without,"note":"statime-netptp test_ipv4/test_ipv6 are load-flaky socket-timestamp tests and the two ntpd spawn::csptp tests fail on the unmodified checkout in this sandbox"}
json.dump(m,open(f"{dst}/meta.json","w"),indent=1); print(dst,"confirmed=",ok,sorted(unexpected)[:3])
PY
