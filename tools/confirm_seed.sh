#!/bin/bash
# Confirm a seeded change delivered by a blind sub-agent in /tmp/seed-<ID>-<n> (both diffs applied there):
#  1. with patch: whole existing suite passes (except tests that also fail on the unmodified checkout), demo FAILS
#  2. without patch: demo PASSES
# Then store it under /verif/seeded/<ID>-<n>/ (patch.diff, demo.diff, meta.json + confirmation log).
set -u
id="$1"; n="$2"; wt="/tmp/seed-$id-$n"; out="$wt-out"; dst="/verif/seeded/$id-$n"
cd "$wt" || exit 2
demo=$(python3 -c "import json;print(json.load(open('$out/meta.json'))['demo_cmd'])")
log="$out/confirm.log"; : > "$log"
echo "## suite with patch (+demo)" >> "$log"
flock /tmp/suite.lock cargo test --workspace --no-fail-fast --offline 2>&1 | grep -E "^test result|^test .* FAILED" >> "$log"
echo "## demo with patch: $demo" >> "$log"
( eval "$demo" 2>&1 | grep -E "^test result|^test .*(FAILED|ok)$" ) >> "$log"
git apply -R "$out/patch.diff" || { echo "cannot unapply" >> "$log"; exit 2; }
echo "## demo without patch" >> "$log"
( eval "$demo" 2>&1 | grep -E "^test result|^test .*(FAILED|ok)$" ) >> "$log"
git apply "$out/patch.diff"
mkdir -p "$dst" && cp "$out/patch.diff" "$out/demo.diff" "$out/meta.json" "$log" "$dst/"
cat "$log" | cut -c1-200
